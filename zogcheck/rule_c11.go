package main

import (
	"fmt"
	"go/ast"
	"go/constant"
	"go/token"
	"go/types"
	"regexp"
	"sort"
	"strings"

	"golang.org/x/tools/go/packages"
	"golang.org/x/tools/go/ssa"
)

func init() { register("C11", checkC11) }

const notMark = "¬" // symbolic zconst.NotIssueCode(c)

func showCode(c string) string {
	if strings.HasPrefix(c, notMark) {
		return "not_" + strings.TrimPrefix(c, notMark)
	}
	if c == "" {
		return `""`
	}
	return c
}

// ---------- reader side: language maps ----------

type langMap struct {
	name string // e.g. "en"
	pos  string
	m    map[string]map[string]string // type -> code -> template
}

func (P *Prog) langMaps() ([]langMap, []string) {
	var out []langMap
	var problems []string
	for _, p := range P.Pkgs {
		if !inModule(p.PkgPath) {
			continue
		}
		for _, f := range p.Syntax {
			for _, d := range f.Decls {
				gd, ok := d.(*ast.GenDecl)
				if !ok || gd.Tok != token.VAR {
					continue
				}
				for _, sp := range gd.Specs {
					vs := sp.(*ast.ValueSpec)
					for i, nm := range vs.Names {
						obj := p.TypesInfo.Defs[nm]
						if obj == nil || i >= len(vs.Values) {
							continue
						}
						if !isLangMapType(obj.Type()) {
							continue
						}
						cl, ok := vs.Values[i].(*ast.CompositeLit)
						if !ok {
							continue // alias of another map (conf.DefaultIssueMessageMap = en.Map)
						}
						lm := langMap{name: shortName(p.PkgPath) + "." + nm.Name, pos: P.pos(nm.Pos()), m: map[string]map[string]string{}}
						for _, e := range cl.Elts {
							kv, ok := e.(*ast.KeyValueExpr)
							if !ok {
								continue
							}
							tk, ok := P.evalKey(p, kv.Key)
							if !ok {
								problems = append(problems, fmt.Sprintf("%s: type key %s is not a constant", lm.name, P.pos(kv.Key.Pos())))
								continue
							}
							inner, ok := kv.Value.(*ast.CompositeLit)
							if !ok {
								problems = append(problems, fmt.Sprintf("%s[%s]: value is not a map literal", lm.name, tk))
								continue
							}
							lm.m[tk] = map[string]string{}
							for _, ie := range inner.Elts {
								ikv, ok := ie.(*ast.KeyValueExpr)
								if !ok {
									continue
								}
								ck, ok := P.evalKey(p, ikv.Key)
								if !ok {
									problems = append(problems, fmt.Sprintf("%s[%s]: code key at %s is neither a constant nor NotIssueCode(constant)", lm.name, tk, P.pos(ikv.Key.Pos())))
									continue
								}
								tv := p.TypesInfo.Types[ikv.Value]
								if tv.Value == nil || tv.Value.Kind() != constant.String {
									problems = append(problems, fmt.Sprintf("%s[%s][%s]: template is not a constant string", lm.name, tk, showCode(ck)))
									continue
								}
								lm.m[tk][ck] = constant.StringVal(tv.Value)
							}
						}
						out = append(out, lm)
					}
				}
			}
		}
	}
	sort.Slice(out, func(i, j int) bool { return out[i].name < out[j].name })
	return out, problems
}

func isLangMapType(t types.Type) bool {
	m, ok := types.Unalias(t).Underlying().(*types.Map)
	if !ok {
		return false
	}
	if b, ok := m.Key().Underlying().(*types.Basic); !ok || b.Kind() != types.String {
		return false
	}
	m2, ok := m.Elem().Underlying().(*types.Map)
	if !ok {
		return false
	}
	b1, ok1 := m2.Key().Underlying().(*types.Basic)
	b2, ok2 := m2.Elem().Underlying().(*types.Basic)
	return ok1 && ok2 && b1.Kind() == types.String && b2.Kind() == types.String
}

func (P *Prog) evalKey(p *packages.Package, e ast.Expr) (string, bool) {
	tv := p.TypesInfo.Types[e]
	if tv.Value != nil && tv.Value.Kind() == constant.String {
		return constant.StringVal(tv.Value), true
	}
	if call, ok := e.(*ast.CallExpr); ok && len(call.Args) == 1 {
		var id *ast.Ident
		switch f := call.Fun.(type) {
		case *ast.SelectorExpr:
			id = f.Sel
		case *ast.Ident:
			id = f
		}
		if id != nil {
			if fn, ok := p.TypesInfo.Uses[id].(*types.Func); ok && fn.Name() == "NotIssueCode" && fn.Pkg() != nil && fn.Pkg().Path() == pkgZconst {
				if a := p.TypesInfo.Types[call.Args[0]]; a.Value != nil && a.Value.Kind() == constant.String {
					return notMark + constant.StringVal(a.Value), true
				}
			}
		}
	}
	return "", false
}

var placeholderRE = regexp.MustCompile(`\{\{([^{}]*)\}\}`)

// ---------- writer side: producers ----------

type producerRow struct {
	dtype       string
	code        string
	keys        []string
	origin      string
	pos         string
	unknownKeys bool // Params supplied by the user
}

type testLit struct {
	fn        *ssa.Function
	alloc     *ssa.Alloc
	code      string
	hasCode   bool
	codeConst bool
	keys      []string
	keysConst bool
	pos       string
	// non-constant code / keys (a constructor helper's parameters), for expansion per call site
	codeVal ssa.Value
	keyVals []ssa.Value
	via     string // the helper the literal was expanded from
	// for an expanded template: the helper holding the literal (and the predicate closure), and the
	// binding of its parameters to the call site's arguments
	tmplFn  *ssa.Function
	tmplEnv map[ssa.Value]ssa.Value
}

// testLiterals finds every construction site of a Test value.
func (P *Prog) testLiterals() []testLit {
	R := P.roles
	codeF := structField(R.Test, "IssueCode")
	paramsF := structField(R.Test, "Params")
	var out []testLit
	for _, fn := range P.Funcs {
		eachInstr(fn, func(_ *ssa.BasicBlock, _ int, in ssa.Instruction) {
			al, ok := in.(*ssa.Alloc)
			if !ok || !sameNamed(al.Type().(*types.Pointer).Elem(), R.Test) {
				return
			}
			tl := testLit{fn: fn, alloc: al, pos: P.ipos(al), codeConst: true, keysConst: true}
			isLit := false
			refs := al.Referrers()
			if refs == nil {
				return
			}
			wholeStore := false
			for _, rf := range *refs {
				switch x := rf.(type) {
				case *ssa.Store:
					if x.Addr == ssa.Value(al) {
						wholeStore = true // copy of another Test value (call result / parameter)
					}
				case *ssa.FieldAddr:
					_, f := fieldVar(x)
					frefs := x.Referrers()
					if frefs == nil {
						continue
					}
					for _, fr := range *frefs {
						switch y := fr.(type) {
						case *ssa.Store:
							if y.Addr != ssa.Value(x) {
								continue
							}
							if sameField(f, codeF) {
								isLit = true
								tl.hasCode = true
								if s, ok := constString(y.Val); ok {
									tl.code = s
								} else {
									tl.codeConst = false
									tl.codeVal = y.Val
								}
							}
							if sameField(f, paramsF) {
								isLit = true
								// a map literal: `Params: map[string]any{code: n}`
								if mk, isMk := cv(y.Val).(*ssa.MakeMap); isMk && mk.Referrers() != nil {
									for _, mr := range *mk.Referrers() {
										if mu, ok := mr.(*ssa.MapUpdate); ok && mu.Map == ssa.Value(mk) {
											if s, ok := constString(mu.Key); ok {
												tl.keys = append(tl.keys, s)
											} else {
												tl.keysConst = false
												tl.keyVals = append(tl.keyVals, mu.Key)
											}
										}
									}
								}
							}
						case *ssa.UnOp:
							// load of Params followed by MapUpdate
							if sameField(f, paramsF) {
								if lrefs := y.Referrers(); lrefs != nil {
									for _, lr := range *lrefs {
										if mu, ok := lr.(*ssa.MapUpdate); ok && mu.Map == ssa.Value(y) {
											if s, ok := constString(mu.Key); ok {
												tl.keys = append(tl.keys, s)
											} else {
												tl.keysConst = false
												tl.keyVals = append(tl.keyVals, mu.Key)
											}
										}
									}
								}
							}
						}
					}
				}
			}
			if wholeStore && !isLit {
				return
			}
			if !isLit && !al.Heap {
				// `Test{}` zero literal only counts when it is a composite literal (heap or address-taken)
				return
			}
			sort.Strings(tl.keys)
			out = append(out, tl)
		})
	}
	return P.expandLiteralTemplates(out, 0)
}

// expandLiteralTemplates: a Test literal inside a constructor helper whose
// issue code / parameter keys are the helper's own parameters is a template;
// it stands for one literal per call site of the helper, with the actual
// arguments substituted (`newTimeTest(zconst.IssueCodeAfter, t)`). A template
// whose every call site could be expanded is replaced by its instances.
func (P *Prog) expandLiteralTemplates(lits []testLit, depth int) []testLit {
	if depth > 3 {
		return lits
	}
	paramIdx := func(fn *ssa.Function, v ssa.Value) int {
		p, ok := cv(v).(*ssa.Parameter)
		if !ok {
			return -1
		}
		for i, q := range fn.Params {
			if q == p {
				return i
			}
		}
		return -1
	}
	var out []testLit
	changed := false
	for _, tl := range lits {
		if tl.codeConst && tl.keysConst {
			out = append(out, tl)
			continue
		}
		// every non-constant slot must be a parameter of the enclosing function
		okT := true
		if !tl.codeConst && (tl.codeVal == nil || paramIdx(tl.fn, tl.codeVal) < 0) {
			okT = false
		}
		for _, kv := range tl.keyVals {
			if paramIdx(tl.fn, kv) < 0 {
				okT = false
			}
		}
		if !tl.keysConst && len(tl.keyVals) == 0 {
			okT = false
		}
		if !okT || tl.fn.Parent() != nil {
			out = append(out, tl)
			continue
		}
		// call sites of the helper; its value must not escape as a function value
		var sites []*ssa.Call
		escapes := false
		for _, caller := range P.Funcs {
			eachInstr(caller, func(_ *ssa.BasicBlock, _ int, in ssa.Instruction) {
				if c, ok := in.(*ssa.Call); ok {
					if ci := callOf(c); ci.static == tl.fn {
						sites = append(sites, c)
						return
					}
				}
				var ops []*ssa.Value
				for _, op := range in.Operands(ops) {
					if f, ok := (*op).(*ssa.Function); ok && f == tl.fn {
						if c, isCall := in.(ssa.CallInstruction); !isCall || c.Common().Value != ssa.Value(f) {
							escapes = true
						}
					}
				}
			})
		}
		if len(sites) == 0 || escapes || isExportedAPI(tl.fn) {
			out = append(out, tl)
			continue
		}
		for _, c := range sites {
			nt := testLit{fn: c.Parent(), hasCode: tl.hasCode, code: tl.code, codeConst: true, keysConst: true, keys: append([]string{}, tl.keys...), pos: P.ipos(c), via: fname(tl.fn)}
			args := c.Call.Args
			nt.tmplFn = tl.fn
			nt.tmplEnv = map[ssa.Value]ssa.Value{}
			if tl.tmplFn != nil {
				// a template expanded through a further helper: keep the innermost literal's function and compose
				nt.tmplFn = tl.tmplFn
				for k, v := range tl.tmplEnv {
					nt.tmplEnv[k] = v
				}
			}
			for k, prm := range tl.fn.Params {
				if k < len(args) {
					nt.tmplEnv[prm] = args[k]
				}
			}
			if !tl.codeConst {
				a := args[paramIdx(tl.fn, tl.codeVal)]
				if sv, ok := constString(cv(a)); ok {
					nt.code = sv
				} else {
					nt.codeConst, nt.codeVal = false, cv(a)
				}
			}
			for _, kv := range tl.keyVals {
				a := args[paramIdx(tl.fn, kv)]
				if sv, ok := constString(cv(a)); ok {
					nt.keys = append(nt.keys, sv)
				} else {
					nt.keysConst = false
					nt.keyVals = append(nt.keyVals, cv(a))
				}
			}
			sort.Strings(nt.keys)
			out = append(out, nt)
			changed = true
		}
	}
	if changed {
		return P.expandLiteralTemplates(out, depth+1)
	}
	return out
}

// kindDtype: the constant returned by a kind's getType, or "" when it
// delegates to a wrapped schema.
func (P *Prog) kindDtype(kind string) (string, bool) {
	n := P.roles.KindByName[kind]
	for _, fn := range P.Funcs {
		if fn.Name() != P.roles.MGetType || fn.Signature.Recv() == nil || !sameNamed(namedOf(fn.Signature.Recv().Type()), n) {
			continue
		}
		var val string
		isConst := false
		eachInstr(fn, func(_ *ssa.BasicBlock, _ int, in ssa.Instruction) {
			if ret, ok := in.(*ssa.Return); ok && len(ret.Results) == 1 {
				if s, ok := constString(ret.Results[0]); ok {
					val, isConst = s, true
				}
			}
		})
		return val, isConst
	}
	return "", false
}

func (P *Prog) producerRows(r *Result) []producerRow {
	R := P.roles
	lits := P.testLiterals()
	litsByFn := map[*ssa.Function][]testLit{}
	for _, l := range lits {
		litsByFn[l.fn] = append(litsByFn[l.fn], l)
	}
	r.Extra["test_literal_sites"] = len(lits)
	var allD []string
	dOf := map[string]string{}
	for _, k := range R.Kinds {
		if d, ok := P.kindDtype(k.Obj().Name()); ok {
			dOf[k.Obj().Name()] = d
			allD = append(allD, d)
		}
	}
	sort.Strings(allD)
	allD = uniq(allD)
	r.Extra["dtypes"] = allD
	var rows []producerRow
	addTest := map[*ssa.Function]bool{}
	for _, fn := range P.Funcs {
		if fn == P.notConsumer() {
			addTest[fn] = true
		}
	}
	for _, k := range R.Kinds {
		kname := k.Obj().Name()
		ds := []string{}
		if d, ok := dOf[kname]; ok {
			ds = []string{d}
		} else {
			ds = allD // wrapper kinds take the wrapped schema's type
		}
		for _, fn := range P.Funcs {
			if fn.Parent() != nil || fn.Signature.Recv() == nil || !sameNamed(namedOf(fn.Signature.Recv().Type()), k) {
				continue
			}
			if !ast.IsExported(fn.Name()) {
				continue
			}
			// literal sites in fn and its static module callees (depth 2), not crossing into other kinds' methods
			seen := map[*ssa.Function]bool{}
			var sites []testLit
			negatable := false
			var walk func(f *ssa.Function, d int)
			walk = func(f *ssa.Function, d int) {
				if seen[f] || d > 2 {
					return
				}
				seen[f] = true
				sites = append(sites, litsByFn[f]...)
				eachInstr(f, func(_ *ssa.BasicBlock, _ int, in ssa.Instruction) {
					ci := callOf(in)
					if ci == nil || ci.static == nil || !inModule(funcPkgPath(ci.static)) {
						return
					}
					if addTest[ci.static] {
						negatable = true
						return
					}
					if ci.static.Signature.Recv() != nil && R.isKind(ci.static.Signature.Recv().Type()) {
						return
					}
					walk(ci.static, d+1)
				})
			}
			walk(fn, 0)
			for _, s := range sites {
				if !s.hasCode && len(s.keys) == 0 {
					continue // user-coded test (TestFunc): code chosen by the user; message = fallback
				}
				for _, d := range ds {
					row := producerRow{dtype: d, code: s.code, keys: s.keys, origin: fmt.Sprintf("%s.%s (literal in %s)", kname, fn.Name(), fname(s.fn)), pos: s.pos}
					rows = append(rows, row)
					if negatable {
						nr := row
						nr.code = notMark + s.code
						nr.origin += " after Not()"
						rows = append(rows, nr)
					}
				}
			}
		}
		// every node type can produce coerce issues and user-coded tests
		for _, d := range ds {
			rows = append(rows, producerRow{dtype: d, code: "coerce", origin: kname + " coercion failure (IssueFromCoerce)"})
			rows = append(rows, producerRow{dtype: d, code: "", origin: kname + ".TestFunc / custom test without IssueCode", unknownKeys: true})
		}
	}
	return rows
}

// foreignIssueRows: ZogIssue literals built outside the context constructors
// (front ends) and the Dtype they carry when they reach the sink.
func (P *Prog) foreignIssueRows(r *Result, allD []string) []producerRow {
	R := P.roles
	codeF := structField(R.ZogIssue, "Code")
	dtypeF := structField(R.ZogIssue, "Dtype")
	var rows []producerRow
	adopts, detail := P.unknownErrorAdoptsDtype()
	r.info("IssueFromUnknownError: %s", detail)
	for _, fn := range P.Funcs {
		eachInstr(fn, func(_ *ssa.BasicBlock, _ int, in ssa.Instruction) {
			al, ok := in.(*ssa.Alloc)
			if !ok || !al.Heap || !sameNamed(al.Type().(*types.Pointer).Elem(), R.ZogIssue) {
				return
			}
			// an issue allocated by a constructor that returns it (`e := &ZogIssue{}` in NewZogIssue, once issues are
			// no longer pooled) is a blank its callers fill: issue-complete decides its fields, it is not a literal
			returned := false
			eachInstr(fn, func(_ *ssa.BasicBlock, _ int, in2 ssa.Instruction) {
				if rt, ok := in2.(*ssa.Return); ok {
					for _, rv := range rt.Results {
						if cv(rv) == ssa.Value(al) {
							returned = true
						}
					}
				}
			})
			if returned && strings.HasSuffix(funcPkgPath(fn), "/internals") {
				return
			}
			code, hasCode := "", false
			dtype, hasD := "", false
			if refs := al.Referrers(); refs != nil {
				for _, rf := range *refs {
					fa, ok := rf.(*ssa.FieldAddr)
					if !ok {
						continue
					}
					_, f := fieldVar(fa)
					if frefs := fa.Referrers(); frefs != nil {
						for _, fr := range *frefs {
							if st, ok := fr.(*ssa.Store); ok {
								if s, ok := constString(st.Val); ok {
									if sameField(f, codeF) {
										code, hasCode = s, true
									}
									if sameField(f, dtypeF) {
										dtype, hasD = s, true
									}
								}
							}
						}
					}
				}
			}
			if !hasCode {
				return
			}
			origin := fmt.Sprintf("issue literal in %s", fname(fn))
			switch {
			case hasD:
				rows = append(rows, producerRow{dtype: dtype, code: code, origin: origin, pos: P.ipos(al)})
			case adopts:
				for _, d := range allD {
					rows = append(rows, producerRow{dtype: d, code: code, origin: origin + " (Dtype adopted from the node by IssueFromUnknownError)", pos: P.ipos(al)})
				}
			default:
				rows = append(rows, producerRow{dtype: "", code: code, origin: origin + " (no Dtype set by the literal nor by IssueFromUnknownError)", pos: P.ipos(al)})
			}
		})
	}
	return rows
}

// unknownErrorAdoptsDtype: in (*SchemaCtx).IssueFromUnknownError, on the path
// where err is already a *ZogIssue, is its Dtype filled from the context
// (unconditionally or when empty)?
// copiedFrom: dst is a pointer into which the whole struct behind src (a pointer, seen through its type assertion) is
// copied: `*dst = *src`. The execution's own copy of a callback's issue.
func copiedFrom(dst, src ssa.Value) bool {
	d := cv(dst)
	refs := d.Referrers()
	if refs == nil {
		return false
	}
	for _, rf := range *refs {
		if st, ok := rf.(*ssa.Store); ok && cv(st.Addr) == d {
			if u, ok := cv(st.Val).(*ssa.UnOp); ok && u.Op == token.MUL && cvi(u.X) == src {
				return true
			}
		}
	}
	return false
}

func (P *Prog) unknownErrorAdoptsDtype() (bool, string) {
	R := P.roles
	fn := P.fn("(*zog/internals.SchemaCtx).IssueFromUnknownError")
	if fn == nil {
		return false, "function not found"
	}
	dtypeF := structField(R.ZogIssue, "Dtype")
	ok := false
	errP := ssa.Value(fn.Params[len(fn.Params)-1])
	// in the function itself or in a helper it hands the asserted issue to (`adoptIssue(known)`), each read under its
	// call-site bindings: a store of the context's DType into the Dtype of the issue that *is* the error parameter
	for _, u := range P.allUnits(fn) {
		u := u
		u.with(func() {
			eachInstr(u.fn, func(_ *ssa.BasicBlock, _ int, in ssa.Instruction) {
				if st, isSt := in.(*ssa.Store); isSt {
					base, f := fieldVar(st.Addr)
					if f == nil || !sameField(f, dtypeF) || (cvi(base) != errP && !copiedFrom(base, errP)) {
						return
					}
					if _, vf := loadOfField(cv(st.Val)); vf != nil && sameField(vf, R.FDType) {
						ok = true
					}
					return
				}
				// also accept a call of SetDType(c.DType) on the asserted issue
				ci := callOf(in)
				if ci != nil && ci.static != nil && ci.static.Name() == "SetDType" && len(ci.args()) == 2 && cvi(ci.args()[0]) == errP {
					if _, vf := loadOfField(cv(ci.args()[1])); vf != nil && sameField(vf, R.FDType) {
						ok = true
					}
				}
			})
		})
	}
	if ok {
		return true, "a *ZogIssue passed as error gets its Dtype from the node's context"
	}
	return false, "a *ZogIssue passed as error is returned as is (its Dtype is whatever the producer set)"
}

// ---------- the check ----------

func checkC11(P *Prog, r *Result) {
	R := P.roles
	r.Exhaustive = true
	r.Explanation = "Decides the catalogue clause exhaustively: the writer table (every Test literal and issue literal in the module: issue code, parameter keys, and the schema types whose " +
		"builder methods reach it; Not() variants kept symbolic as NotIssueCode(code); coerce/required/not_nil and front-end issues included) is joined with the reader table " +
		"(every shipped LangMap literal, evaluated from the syntax tree with constant keys). For every (type, code) row and every language the chosen template (own or fallback) " +
		"must be non-empty and each {{placeholder}} in it must be a parameter key the producing test writes, or `value`. Also: single-parameter tests store their parameter under their own code; " +
		"issue constructors fill code/path/type/value from the context; formatter precedence (test formatter at construction, execution formatter only if the message is empty, " +
		"per-call option over the global read at call time, i18n language from this call's context). It does not decide user-supplied language maps or formatter combinations at run time."
	langs, problems := P.langMaps()
	for _, p := range problems {
		r.undecided("C11/template-table", p, "-", "language map entry cannot be evaluated statically")
	}
	if len(langs) < 2 {
		r.broken("vacuous: %d language map literals found (floor 2)", len(langs))
	}
	rows := P.producerRows(r)
	var allD []string
	if ds, ok := r.Extra["dtypes"].([]string); ok {
		allD = ds
	}
	rows = append(rows, P.foreignIssueRows(r, allD)...)
	// dedupe rows by (dtype, code, keys)
	type rk struct{ d, c, k string }
	seen := map[rk]*producerRow{}
	var uniqRows []producerRow
	for _, row := range rows {
		k := rk{row.dtype, row.code, strings.Join(row.keys, ",")}
		if seen[k] != nil {
			continue
		}
		rr := row
		seen[k] = &rr
		uniqRows = append(uniqRows, rr)
	}
	sort.Slice(uniqRows, func(i, j int) bool {
		a, b := uniqRows[i], uniqRows[j]
		if a.dtype != b.dtype {
			return a.dtype < b.dtype
		}
		return a.code < b.code
	})
	r.Extra["producer_rows"] = len(uniqRows)
	var rowList []string
	for _, row := range uniqRows {
		rowList = append(rowList, fmt.Sprintf("type=%s code=%s params=%v <- %s", showCode(row.dtype), showCode(row.code), row.keys, row.origin))
	}
	r.Extra["producer_table"] = rowList
	r.Extra["languages"] = func() []string {
		var s []string
		for _, l := range langs {
			s = append(s, l.name)
		}
		return s
	}()
	if len(uniqRows) < 60 {
		r.broken("vacuous: %d producer rows (floor 60)", len(uniqRows))
	}
	for _, lm := range langs {
		// type-known
		dts := map[string]bool{}
		for _, row := range uniqRows {
			dts[row.dtype] = true
		}
		for _, d := range sortedKeys(dts) {
			c := fmt.Sprintf("%s/%s", lm.name, showCode(d))
			tm, ok := lm.m[d]
			if !ok || tm["fallback"] == "" {
				who := ""
				for _, row := range uniqRows {
					if row.dtype == d {
						who = row.origin
						break
					}
				}
				r.bad("C11/type-known", c, lm.pos, fmt.Sprintf("issues with schema type %q are produced (%s) but language map %s has no entry (or no fallback) for that type: the message is empty", d, who, lm.name))
			} else {
				r.ok("C11/type-known", c, lm.pos, "type has templates and a non-empty fallback")
			}
		}
		for _, row := range uniqRows {
			tm, ok := lm.m[row.dtype]
			if !ok {
				continue // reported by type-known
			}
			c := fmt.Sprintf("%s/%s/%s", lm.name, showCode(row.dtype), showCode(row.code))
			tpl, own := tm[row.code]
			if !own {
				tpl = tm["fallback"]
			}
			if tpl == "" {
				r.bad("C11/covered", c, lm.pos, fmt.Sprintf("no non-empty template nor fallback for code %s of type %s (%s)", showCode(row.code), row.dtype, row.origin))
				continue
			}
			r.ok("C11/covered", c, lm.pos, map[bool]string{true: "own template", false: "fallback template"}[own])
			if row.unknownKeys {
				continue
			}
			var badPH []string
			for _, m := range placeholderRE.FindAllStringSubmatch(tpl, -1) {
				ph := m[1]
				if ph == "value" {
					continue
				}
				found := false
				for _, k := range row.keys {
					if k == ph {
						found = true
					}
				}
				if !found {
					badPH = append(badPH, "{{"+ph+"}}")
				}
			}
			if len(badPH) > 0 {
				r.bad("C11/placeholders", c, lm.pos, fmt.Sprintf("template %q has placeholder(s) %s but the producing test (%s) writes parameter key(s) %v: the placeholder is left unresolved in the message", tpl, strings.Join(badPH, ","), row.origin, row.keys))
			} else {
				r.ok("C11/placeholders", c, lm.pos, fmt.Sprintf("placeholders of %q ⊆ %v ∪ {value}", tpl, row.keys))
			}
		}
	}
	// (b) param-key-is-code
	for _, l := range P.testLiterals() {
		if len(l.keys) != 1 || !l.hasCode {
			continue
		}
		c := fmt.Sprintf("%s#%s", fname(l.fn), l.code)
		if l.keys[0] == l.code && l.codeConst && l.keysConst {
			r.ok("C11/param-key-is-code", c, l.pos, "single parameter stored under the test's own issue code")
		} else {
			r.bad("C11/param-key-is-code", c, l.pos, fmt.Sprintf("test with code %q stores its parameter under key %q", l.code, l.keys[0]))
		}
	}
	r.floor("C11/param-key-is-code", 8)
	// (c) issue-complete
	P.checkIssueComplete(r)
	// issues are per execution: no package-level issue object can be handed to an execution (it would keep the
	// first execution's message/type and ignore the later execution's language and formatter)
	tmp := NewResult(r.Prop, r.Tier)
	P.checkNoGlobalPooledObject(tmp)
	for _, o := range tmp.Obls {
		o.Rule = "C11/issue-per-execution"
		r.Obls = append(r.Obls, o)
		r.Instances[o.Rule]++
	}
	// (d) precedence
	P.checkPrecedence(r)
	P.checkParamPresence(r)
	P.checkIssuesBuiltByContext(r)
	P.checkCtxValueStore(r, "C11/ctx-value-last-set-wins")
	_ = R
}

// issueFieldPaths: for a function that builds and returns a *ZogIssue, the
// provenance of every issue field on each decision path (builder helpers and
// setters entered, values resolved to the function's own parameters/context):
// the last store to each field of the object that is returned.
type issueFields struct {
	prov     map[string]string // field -> provenance of the last store
	returned bool              // the object the fields were stored into is the one returned
	path     string
}

func (P *Prog) issueFieldPaths(fn *ssa.Function) ([]issueFields, bool) {
	R := P.roles
	zi := R.ZogIssue.Underlying().(*types.Struct)
	provOf := func(val ssa.Value) string {
		v := cv(val)
		switch {
		case isConstLike(v):
			return "const " + vstr(v)
		default:
			if _, lf := loadOfField(v); lf != nil {
				return "field " + lf.Name()
			} else if c, ok := v.(*ssa.Call); ok {
				return "call " + callOf(c).calleeName()
			} else if p, ok := cvi(v).(*ssa.Parameter); ok {
				return "param " + p.Name()
			}
		}
		return "other"
	}
	spec := &pathSpec{name: "issue-fields", inlineAll: true}
	spec.keep = func(f *ssa.Function) bool {
		// the path renderer and the formatters are not builders of the issue
		return f.Signature.Recv() != nil && sameNamed(namedOf(f.Signature.Recv().Type()), R.PathB)
	}
	spec.cond = func(iff *ssa.If) (string, string, string) { return "", "", "" }
	spec.events = func(in ssa.Instruction) []pathItem {
		st, ok := in.(*ssa.Store)
		if !ok {
			return nil
		}
		if base, f := fieldVar(st.Addr); f != nil && P.isPtrTo(cv(base).Type(), R.ZogIssue) {
			return []pathItem{{kind: "SET", val: f.Name() + "=" + provOf(st.Val), in: in, aux: cvi(base)}}
		}
		// whole-object reset: *e = ZogIssue{}
		if P.isPtrTo(st.Addr.Type(), R.ZogIssue) {
			if c, isC := cv(st.Val).(*ssa.Const); isC && c.Value == nil {
				var out []pathItem
				for i := 0; i < zi.NumFields(); i++ {
					out = append(out, pathItem{kind: "SET", val: zi.Field(i).Name() + "=const zero", in: in, aux: cvi(st.Addr)})
				}
				return out
			}
		}
		return nil
	}
	spec.onReturn = func(rt *ssa.Return) string {
		res, ok := retVals(rt)
		if !ok || len(res) == 0 {
			return "?"
		}
		return fmt.Sprintf("%p", cvi(res[0]))
	}
	res := P.enumPathsSpec(fn, nil, spec)
	var out []issueFields
	for _, p := range res.paths {
		if !strings.HasPrefix(p.end, "RETURN") {
			continue
		}
		ret := strings.TrimPrefix(p.end, "RETURN ")
		f := issueFields{prov: map[string]string{}, path: p.String()}
		for _, it := range p.items {
			if it.kind != "SET" || fmt.Sprintf("%p", it.aux) != ret {
				continue
			}
			f.returned = true
			kv := strings.SplitN(it.val, "=", 2)
			f.prov[kv[0]] = kv[1]
		}
		out = append(out, f)
	}
	return out, res.capHit
}

func (P *Prog) checkIssueComplete(r *Result) {
	want := map[string][]string{
		"(*zog/internals.SchemaCtx).IssueFromTest":   {"Code", "Path", "Dtype", "Value", "Params", "Message", "Err"},
		"(*zog/internals.SchemaCtx).IssueFromCoerce": {"Code", "Path", "Dtype", "Value", "Params", "Message", "Err"},
		// SchemaCtx.Issue(): a fresh issue prefilled from the node's own context
		"(*zog/internals.SchemaCtx).Issue": {"Path", "Dtype", "Value"},
	}
	for _, name := range sortedKeys(want) {
		fn := P.fn(name)
		if fn == nil {
			r.broken("anchor %s not found", name)
			continue
		}
		r.sawFunc(name)
		paths, capHit := P.issueFieldPaths(fn)
		if capHit || len(paths) == 0 {
			r.undecided("C11/issue-complete", name, P.pos(fn.Pos()), "cannot enumerate the paths that build the issue")
			continue
		}
		expectProv := map[string]string{"Path": "call (*zog/internals.PathBuilder).String", "Dtype": "field DType"}
		switch {
		case strings.HasSuffix(name, "IssueFromTest"):
			expectProv["Code"] = "field IssueCode"
			expectProv["Params"] = "field Params"
			expectProv["Value"] = "param val"
			expectProv["Path"] += "|field IssuePath" // the test's own IssuePath option overrides the node's path
		case strings.HasSuffix(name, "IssueFromCoerce"):
			expectProv["Code"] = `const "coerce"`
			expectProv["Value"] = "field Data"
			expectProv["Err"] = "param err"
		default:
			expectProv["Value"] = "field Data"
		}
		for _, fld := range want[name] {
			c := name + "#" + fld
			bad := ""
			provs := map[string]bool{}
			for _, ip := range paths {
				pv, has := ip.prov[fld]
				if !ip.returned || !has {
					bad = "issue field " + fld + " is not filled on every path"
					break
				}
				provs[pv] = true
				if exp, hasE := expectProv[fld]; hasE {
					okAlt := false
					for _, alt := range strings.Split(exp, "|") {
						if strings.Contains(pv, alt) {
							okAlt = true
						}
					}
					if !okAlt {
						bad = fmt.Sprintf("issue field %s is filled from %q, expected %q (the node's own context / the failing test)", fld, pv, exp)
						break
					}
				}
			}
			if exp, hasE := expectProv[fld]; hasE && bad == "" {
				// the first alternative is the default: some path must use it
				first := strings.Split(exp, "|")[0]
				seen := false
				for pv := range provs {
					if strings.Contains(pv, first) {
						seen = true
					}
				}
				if !seen {
					bad = fmt.Sprintf("issue field %s is never filled from %q", fld, first)
				}
			}
			if bad != "" {
				r.bad("C11/issue-complete", c, P.pos(fn.Pos()), bad)
			} else {
				r.ok("C11/issue-complete", c, P.pos(fn.Pos()), "filled from "+strings.Join(sortedKeys(provs), " | "))
			}
		}
	}
	r.floor("C11/issue-complete", 6)
}

func isConstLike(v ssa.Value) bool {
	_, ok := v.(*ssa.Const)
	return ok
}

func (P *Prog) checkPrecedence(r *Result) {
	R := P.roles
	// IssueFromTest: test.IssueFmtFunc called iff non-nil
	if fn := P.fn("(*zog/internals.SchemaCtx).IssueFromTest"); fn != nil {
		fmtF := structField(R.Test, "IssueFmtFunc")
		var callBlk *ssa.BasicBlock
		guarded := false
		// (in IssueFromTest itself, or in a closure / helper through which it completes the issue)
		for _, u := range P.allUnits(fn) {
			u.with(func() {
				eachInstr(u.fn, func(b *ssa.BasicBlock, _ int, in ssa.Instruction) {
					ci := callOf(in)
					if ci == nil || !ci.dynamic {
						return
					}
					if _, f := loadOfField(cv(ci.instr.Common().Value)); f != nil && sameField(f, fmtF) {
						callBlk = b
						for _, gd := range guardsOf(b) {
							if x, eq, ok := isNilCompare(gd.If.Cond); ok {
								if _, f2 := loadOfField(cv(x)); f2 != nil && sameField(f2, fmtF) && gd.True != eq {
									guarded = true
								}
							}
						}
					}
				})
			})
		}
		switch {
		case callBlk == nil:
			r.bad("C11/precedence", "IssueFromTest#test-formatter", P.pos(fn.Pos()), "the test's own Message/MessageFunc formatter is never invoked when the issue is built")
		case !guarded:
			r.bad("C11/precedence", "IssueFromTest#test-formatter", P.pos(fn.Pos()), "the call of test.IssueFmtFunc is not guarded by a nil check")
		default:
			// the guard's true edge must always reach the call: the call block is the guarded block itself
			r.ok("C11/precedence", "IssueFromTest#test-formatter", P.pos(fn.Pos()), "test formatter runs at issue construction whenever it is set")
		}
	} else {
		r.broken("anchor IssueFromTest not found")
	}
	// the test-level formatter is applied only where the issue is built from that test
	for _, f2 := range P.Funcs {
		eachInstr(f2, func(_ *ssa.BasicBlock, _ int, in ssa.Instruction) {
			ci := callOf(in)
			if ci == nil || !ci.dynamic {
				return
			}
			if _, f := loadOfField(cv(ci.instr.Common().Value)); f != nil && sameField(f, structField(R.Test, "IssueFmtFunc")) {
				c := fname(f2) + "#calls-test-formatter"
				if fname(topLevel(f2)) == "(*zog/internals.SchemaCtx).IssueFromTest" {
					r.ok("C11/precedence", c, P.ipos(in), "test formatter applied while building the issue from that test")
				} else {
					r.bad("C11/precedence", c, P.ipos(in), "a test's Message/MessageFunc formatter is applied outside IssueFromTest: issues that do not come from that test (required, coerce, post-transform, a sibling's) can receive its message, ahead of the execution and global formatters")
				}
			}
		})
	}
	// ExecCtx.AddIssue: on every path to the sink, Fmter is called iff Message == "" (helpers such as FmtErr entered)
	if fn := P.fn("(*zog/internals.ExecCtx).AddIssue"); fn != nil {
		fmterF := structField(R.ExecCtx, "Fmter")
		errorsF := structField(R.ExecCtx, "Errors")
		msgF := structField(R.ZogIssue, "Message")
		spec := &pathSpec{name: "execution-formatter", inlineAll: true}
		spec.cond = func(iff *ssa.If) (string, string, string) {
			bo, ok := cv(iff.Cond).(*ssa.BinOp)
			if !ok || (bo.Op != token.EQL && bo.Op != token.NEQ) {
				return "", "", ""
			}
			var other ssa.Value
			if _, f2 := loadOfField(cv(bo.X)); f2 != nil && sameField(f2, msgF) {
				other = bo.Y
			} else if _, f2 := loadOfField(cv(bo.Y)); f2 != nil && sameField(f2, msgF) {
				other = bo.X
			}
			if other == nil {
				return "", "", ""
			}
			if sv, isS := constString(cv(other)); !isS || sv != "" {
				return "", "", ""
			}
			if bo.Op == token.EQL {
				return "MSG-EMPTY", "T", "F"
			}
			return "MSG-EMPTY", "F", "T"
		}
		spec.events = func(in ssa.Instruction) []pathItem {
			ci := callOf(in)
			if ci == nil {
				return nil
			}
			if ci.dynamic {
				if _, f := loadOfField(cv(ci.instr.Common().Value)); f != nil && sameField(f, fmterF) {
					return []pathItem{{kind: "FMT", in: in}}
				}
				return nil
			}
			if (ci.static != nil && ci.static.Name() == "Add" || ci.invoke != nil && ci.invoke.Name() == "Add") && len(ci.args()) > 0 {
				if _, f := loadOfField(cv(ci.args()[0])); f != nil && sameField(f, errorsF) {
					return []pathItem{{kind: "SINK", in: in}}
				}
			}
			return nil
		}
		res := P.enumPathsSpec(fn, nil, spec)
		nFmt, nSink := 0, 0
		var problems []string
		for _, p := range res.paths {
			if p.end != "RETURN" {
				continue
			}
			si := p.index("SINK")
			if si < 0 {
				continue // decided by C01/sink
			}
			nSink++
			empty, tested := false, false
			fmtBeforeSink := 0
			for i, it := range p.items {
				switch it.kind {
				case "MSG-EMPTY":
					if i < si {
						tested = true
						empty = it.val == "T"
					}
				case "FMT":
					if i < si {
						fmtBeforeSink++
						if !tested {
							problems = append(problems, "the execution's formatter is applied without testing whether the message is still empty: it can override a test-level Message  [path: "+p.String()+"]")
						}
					} else {
						problems = append(problems, "the execution's formatter runs after the issue was filed  [path: "+p.String()+"]")
					}
				}
			}
			nFmt += fmtBeforeSink
			switch {
			case tested && empty && fmtBeforeSink != 1:
				problems = append(problems, fmt.Sprintf("an issue whose message is still empty is filed with %d formatter calls (expected 1)  [path: %s]", fmtBeforeSink, p.String()))
			case tested && !empty && fmtBeforeSink != 0:
				problems = append(problems, "the execution's formatter is applied although the issue already has a message: it overrides a test-level Message  [path: "+p.String()+"]")
			case !tested && fmtBeforeSink == 0:
				problems = append(problems, "an issue is filed without consulting the execution's formatter  [path: "+p.String()+"]")
			}
		}
		switch {
		case res.capHit:
			r.undecided("C11/precedence", "ExecCtx.AddIssue#execution-formatter", P.pos(fn.Pos()), "too many paths to enumerate")
		case nSink == 0:
			r.bad("C11/precedence", "ExecCtx.AddIssue#execution-formatter", P.pos(fn.Pos()), "no path of ExecCtx.AddIssue files the issue")
		case nFmt == 0:
			r.bad("C11/precedence", "ExecCtx.AddIssue#execution-formatter", P.pos(fn.Pos()), "the execution's formatter is never applied: issues without a test-level message stay without a message", uniqSorted(problems)...)
		case len(problems) > 0:
			r.bad("C11/precedence", "ExecCtx.AddIssue#execution-formatter", P.pos(fn.Pos()), "the execution's formatter is not applied exactly when the message is still empty: it can override a test-level Message", uniqSorted(problems)...)
		default:
			r.ok("C11/precedence", "ExecCtx.AddIssue#execution-formatter", P.pos(fn.Pos()), fmt.Sprintf("on each of the %d paths to the sink the execution formatter runs exactly when the message is still empty", nSink))
		}
	} else {
		r.broken("anchor ExecCtx.AddIssue not found")
	}
	// entry points: NewExecCtx(errs, <load of conf.IssueFormatter>), options applied to that ctx before dispatch
	// (decided on the entry point's paths, shared prologue helpers and closures handed to them entered)
	for _, ep := range R.EntryPoints {
		r.sawFunc(fname(ep))
		c := fname(ep) + "#formatter-and-options"
		paths, capHit := P.entryPaths(ep)
		if capHit {
			r.undecided("C11/precedence", c, P.pos(ep.Pos()), "too many paths to enumerate")
			continue
		}
		bad := ""
		optSeen, ranSeen := false, false
		for _, p := range paths {
			if p.end == "PANIC" {
				continue
			}
			if p.dispatches > 0 || p.end == "RETURN" {
				switch {
				case len(p.execs) == 0:
					bad = "entry point does not create its execution context with NewExecCtx"
				case len(p.execs) > 1:
					bad = "entry point creates more than one execution context"
				case !p.execGlobal:
					bad = "the execution's default formatter is not the global conf.IssueFormatter read at call time"
				}
			}
			for _, a := range p.optArgs {
				if len(p.execs) != 1 || a != p.execs[0] {
					bad = "ExecOptions (WithIssueFormatter, WithCtxValue) are not applied to this execution's context"
				}
				optSeen = true
			}
			if len(p.optArgs) > 0 && !p.optInLoop {
				bad = "ExecOptions are not applied in a loop over all the given options"
			}
			if p.optAfterRun {
				bad = "the schema runs before the ExecOptions have been applied"
			}
			if p.dispatches > 0 {
				ranSeen = true
			}
			if bad != "" {
				bad += "  [path: " + p.str + "]"
				break
			}
		}
		switch {
		case bad != "":
			r.bad("C11/precedence", c, P.pos(ep.Pos()), bad)
		case !optSeen:
			r.bad("C11/precedence", c, P.pos(ep.Pos()), "ExecOptions (WithIssueFormatter, WithCtxValue) are not applied to this execution's context")
		case !ranSeen:
			r.bad("C11/precedence", c, P.pos(ep.Pos()), "the entry point never runs the schema")
		default:
			r.ok("C11/precedence", c, P.pos(ep.Pos()), "global formatter read at call time; every option applied to this call's context before the schema runs")
		}
	}
	// i18n: language looked up in this call's context
	if fn := closureStoredToGlobal(P.fn("zog/i18n.SetLanguagesErrsMap"), "IssueFormatter"); fn != nil {
		r.sawFunc(fname(fn))
		// the formatter and the helpers it calls (the choice of the map may live in a helper), each read
		// under its call-site bindings
		problems := P.i18nChoice(fn)
		if len(problems) == 0 {
			r.ok("C11/precedence", "i18n#language-from-context", P.pos(fn.Pos()), "language map indexed by ctx.Get(langKey) of this execution whenever that language is installed, default language otherwise")
		} else {
			r.bad("C11/precedence", "i18n#language-from-context", P.pos(fn.Pos()), "i18n formatter does not select the language from this execution's context with a default fallback: "+strings.Join(problems, "; "))
		}
	} else {
		r.undecided("C11/precedence", "i18n#language-from-context", "-", "i18n formatter closure not found")
	}
	r.floor("C11/precedence", 18)
	// test-level Message / IssueCode / Params options reach the stored test, and the negated code is derived
	// from the built-in code, not from an IssueCode option (C17's option-locality and not-typestate rules)
	shareRule(P, r, checkC17, "C17/option-locality", nil, "C11/test-options-effective", 15)
	// the language (and anything else a formatter reads with ctx.Get) is the one passed to *this* execution:
	// every field of the pooled execution context, the values map included, is overwritten at acquisition (C07)
	shareRule(P, r, checkC07, "C07/reinit", func(o Obligation) bool { return strings.Contains(o.Construct, "#zog/internals.ExecCtx.") }, "C11/context-values-per-call", 0)
	shareRule(P, r, checkC17, "C17/not-typestate", func(o Obligation) bool { return strings.HasSuffix(o.Construct, "#shape") }, "C11/negated-code-from-builtin", 1)
	// an issue that reaches a schema from outside (zhttp's invalid_json / invalid_form, a callback's own *ZogIssue) is
	// given the type of the node it is reported at when it has none, and keeps the one it has (C12's rule)
	shareRule(P, r, checkC12, "C12/unknown-error-shape", nil, "C11/foreign-issue-gets-type", 1)
}

// i18nChoice decides, on the paths of the i18n formatter (helpers and closures entered), which language map the
// messages are taken from: whenever the execution names a language (ctx.Get(key) != nil) that is installed (the
// comma-ok lookup keyed by it succeeds), every map handed on to a formatter is that lookup's result; otherwise it is
// the map looked up with the default-language parameter of the installing function. A further condition between the
// lookup and the use (a language used only for the messages it defines itself) sends issues of an installed
// language to another language's texts.
func (P *Prog) i18nChoice(fn *ssa.Function) []string {
	install := fn.Parent()
	if len(fn.Params) < 2 {
		return []string{"unexpected formatter signature"}
	}
	ctxP := ssa.Value(fn.Params[1])
	// ctx.Get(...) on this execution's context (the call may sit in a helper or sibling closure: resolved under the
	// bindings of the path)
	isGet := func(v ssa.Value) bool {
		c, ok := v.(*ssa.Call)
		if !ok {
			return false
		}
		ci := callOf(c)
		return ci.invoke != nil && ci.invoke.Name() == "Get" && cv(c.Call.Value) == ctxP
	}
	fromGet := func(v ssa.Value) bool {
		for _, rt := range P.rootsOf(v) {
			if isGet(rt.v) {
				return true
			}
		}
		return false
	}
	fromDefault := func(v ssa.Value) bool {
		for _, rt := range P.rootsOf(v) {
			if p, ok := rt.v.(*ssa.Parameter); ok && install != nil && p.Parent() == install && types.Identical(p.Type(), types.Typ[types.String]) {
				return true
			}
		}
		return false
	}
	isLangMap := func(t types.Type) bool {
		m, ok := t.Underlying().(*types.Map)
		if !ok {
			return false
		}
		inner, ok := m.Elem().Underlying().(*types.Map)
		if !ok {
			return false
		}
		b, ok := inner.Elem().Underlying().(*types.Basic)
		return ok && b.Info()&types.IsString != 0 // type -> code -> message (not the table of languages)
	}
	classify := func(v ssa.Value) string {
		v = cv(v)
		if ex, ok := v.(*ssa.Extract); ok && ex.Index == 0 {
			if lk, ok := ex.Tuple.(*ssa.Lookup); ok && lk.CommaOk && fromGet(lk.Index) {
				return "named"
			}
			if lk, ok := ex.Tuple.(*ssa.Lookup); ok && lk.CommaOk && fromDefault(lk.Index) {
				return "default"
			}
		}
		if lk, ok := v.(*ssa.Lookup); ok {
			switch {
			case fromGet(lk.Index):
				return "named-unchecked"
			case fromDefault(lk.Index):
				return "default"
			}
		}
		return "other"
	}
	spec := &pathSpec{name: "i18n-choice", inlineAll: true}
	spec.keep = func(f *ssa.Function) bool {
		return !inModule(funcPkgPath(f)) || !strings.HasSuffix(funcPkgPath(f), "/i18n")
	}
	spec.cond = func(iff *ssa.If) (string, string, string) {
		c := cv(iff.Cond)
		if x, eq, isN := isNilCompare(c); isN && isGet(cv(x)) {
			if eq {
				return "LANG-SET", "F", "T"
			}
			return "LANG-SET", "T", "F"
		}
		neg := false
		if u, ok := c.(*ssa.UnOp); ok && u.Op == token.NOT {
			c, neg = cv(u.X), true
		}
		if ex, ok := c.(*ssa.Extract); ok && ex.Index == 1 {
			if lk, ok := ex.Tuple.(*ssa.Lookup); ok && lk.CommaOk && fromGet(lk.Index) && isLangMap(lk.X.Type().Underlying().(*types.Map).Elem()) {
				if neg {
					return "LANG-KNOWN", "F", "T"
				}
				return "LANG-KNOWN", "T", "F"
			}
		}
		return "", "", ""
	}
	spec.events = func(in ssa.Instruction) []pathItem {
		ci := callOf(in)
		if ci == nil || ci.builtin != "" {
			return nil
		}
		// a language map handed to code outside the i18n package (the formatter constructor), or to a func value
		var out []pathItem
		for _, a := range ci.args() {
			if isLangMap(a.Type()) {
				out = append(out, pathItem{kind: "USE", val: classify(a), in: in})
			}
		}
		return out
	}
	res := P.enumPathsSpec(fn, nil, spec)
	var problems []string
	if res.capHit {
		problems = append(problems, "too many paths to enumerate")
	}
	nNamed, nDefault := 0, 0
	for _, p := range res.paths {
		if !strings.HasPrefix(p.end, "RETURN") {
			continue
		}
		set, known := "", ""
		var uses []string
		for _, it := range p.items {
			switch it.kind {
			case "LANG-SET":
				set = it.val
			case "LANG-KNOWN":
				known = it.val
			case "USE":
				uses = append(uses, it.val)
			}
		}
		if len(uses) == 0 {
			problems = append(problems, "no language map is used  [path: "+p.String()+"]")
			continue
		}
		for _, u := range uses {
			switch {
			case set == "T" && known == "T":
				if u != "named" {
					problems = append(problems, "the execution names an installed language but the messages come from "+u+"  [path: "+p.String()+"]")
				} else {
					nNamed++
				}
			case u == "default":
				nDefault++
			default:
				problems = append(problems, "no installed language is named, yet the messages come from "+u+" instead of the default language  [path: "+p.String()+"]")
			}
		}
	}
	if nNamed == 0 {
		problems = append(problems, "the language named in the context is never used")
	}
	if nDefault == 0 {
		problems = append(problems, "there is no fallback to the default language")
	}
	return uniqSorted(problems)
}

// checkParamPresence: whether a placeholder has a value is decided by the *presence* of its key in the issue's
// Params, never by the value stored there. A formatter that reads `v := e.Params[key]` and treats `v == nil` as
// "no such param" leaves `{{key}}` unresolved for a param whose value is nil (`Slice(...).Contains(nil)`,
// `z.Params{"x": nil}`). Contradiction rule over the formatter packages (conf, i18n): no value read from a
// ZogIssue's Params map is compared with nil.
func (P *Prog) checkParamPresence(r *Result) {
	R := P.roles
	paramsF := structField(R.ZogIssue, "Params")
	if paramsF == nil {
		r.broken("the issue's Params field was not found")
		return
	}
	fromParams := func(v ssa.Value) bool {
		v = cv(v)
		if ex, ok := v.(*ssa.Extract); ok {
			v = cv(ex.Tuple)
		}
		var m ssa.Value
		switch x := v.(type) {
		case *ssa.Lookup:
			m = x.X
		case *ssa.Next:
			if rg, ok := x.Iter.(*ssa.Range); ok {
				m = rg.X
			}
		}
		if m == nil {
			return false
		}
		if _, f := loadOfField(cv(m)); f != nil && sameField(f, paramsF) {
			return true
		}
		// the params handed to a helper of the formatter (`fillPlaceholders(msg, e.Params)`): a parameter of the
		// params' own map type
		if prm, isP := cv(m).(*ssa.Parameter); isP && types.Identical(prm.Type().Underlying(), paramsF.Type().Underlying()) {
			return true
		}
		return false
	}
	n := 0
	for _, fn := range P.Funcs {
		pp := funcPkgPath(fn)
		if !strings.HasSuffix(pp, "/conf") && !strings.HasSuffix(pp, "/i18n") {
			continue
		}
		reads := false
		eachInstr(fn, func(_ *ssa.BasicBlock, _ int, in ssa.Instruction) {
			if v, ok := in.(ssa.Value); ok && fromParams(v) {
				reads = true
			}
			bo, ok := in.(*ssa.BinOp)
			if !ok || (bo.Op != token.EQL && bo.Op != token.NEQ) {
				return
			}
			x, _, isN := isNilCompare(bo)
			if !isN || !fromParams(x) {
				return
			}
			n++
			r.bad("C11/param-presence", fname(fn)+"#nil-test", P.ipos(in), "a value read from the issue's Params is compared with nil to decide whether the param exists: a param whose value is nil (Contains(nil), Params{\"k\": nil}) reads as missing and its {{placeholder}} stays in the message")
		})
		if reads {
			n++
			r.sawFunc(fname(fn))
			r.ok("C11/param-presence", fname(fn), P.pos(fn.Pos()), "params are substituted by presence of their key; no value read from Params is tested against nil")
		}
	}
	r.floor("C11/param-presence", 1)
}

// checkIssuesBuiltByContext: every issue the module hands to AddIssue was built by one of the node context's issue
// constructors (Issue, IssueFromTest, IssueFromCoerce, IssueFromUnknownError - the last is what gives an issue that
// comes from outside, a request factory's *ZogIssue, the type of the node it is reported at). A foreign issue passed
// on directly ("it is already a *ZogIssue, the conversion cannot fail") reaches the user without a type, and with
// it without a message under every language-map formatter.
func (P *Prog) checkIssuesBuiltByContext(r *Result) {
	R := P.roles
	isIssuePtr := func(t types.Type) bool { return P.isPtrTo(t, R.ZogIssue) }
	isCtor := func(f *ssa.Function) bool {
		if f == nil || f.Signature.Results().Len() != 1 || !isIssuePtr(f.Signature.Results().At(0).Type()) {
			return false
		}
		if recv := f.Signature.Recv(); recv != nil {
			return P.isPtrTo(recv.Type(), R.SchemaCtx) || P.isPtrTo(recv.Type(), R.ExecCtx)
		}
		return false
	}
	var origin func(v ssa.Value, d int) string
	origin = func(v ssa.Value, d int) string {
		if d > 10 || v == nil {
			return "unknown"
		}
		switch x := cv(v).(type) {
		case *ssa.Phi:
			res := ""
			for _, e := range x.Edges {
				// (`var issue *ZogIssue` filled on the failing branches and added under `issue != nil`: the nil edge adds nothing)
				if isNilConst(e) {
					continue
				}
				o := origin(e, d+1)
				if o != "ctor" {
					return o
				}
				res = o
			}
			if res == "" {
				return "nil"
			}
			return res
		case *ssa.Call:
			ci := callOf(x)
			if ci.invoke != nil && isIssuePtr(x.Type()) {
				// ctx.Issue() / ctx.IssueFromTest(...) through the Ctx interface
				if it, ok := x.Call.Value.Type().Underlying().(*types.Interface); ok && R.Ctx != nil && types.Identical(it, R.Ctx) {
					return "ctor"
				}
				return "an interface call of " + ci.invoke.Name()
			}
			g := ci.static
			if g == nil {
				return "the result of a call through a func value (a request factory's own issue)"
			}
			if isCtor(g) {
				return "ctor"
			}
			// a setter of the issue that returns its receiver, or a module helper returning an issue
			if g.Blocks != nil && inModule(funcPkgPath(g)) && g.Signature.Results().Len() == 1 && isIssuePtr(g.Signature.Results().At(0).Type()) {
				res := ""
				eachInstr(g, func(_ *ssa.BasicBlock, _ int, in ssa.Instruction) {
					rt, ok := in.(*ssa.Return)
					if !ok || len(rt.Results) != 1 || (res != "" && res != "ctor") {
						return
					}
					rv := cv(rt.Results[0])
					if prm, isP := rv.(*ssa.Parameter); isP && prm.Parent() == g {
						for i, q := range g.Params {
							if q == prm && i < len(x.Call.Args) {
								res = origin(x.Call.Args[i], d+1)
							}
						}
						return
					}
					res = origin(rv, d+1)
				})
				if res != "" {
					return res
				}
			}
			return "the result of " + fname(g)
		case *ssa.Extract:
			return "a result of " + origin(x.Tuple, d+1)
		case *ssa.Parameter:
			return "a parameter (" + x.Name() + ")"
		case *ssa.TypeAssert:
			return "a value asserted to *ZogIssue"
		}
		return fmt.Sprintf("a %T", cv(v))
	}
	n := 0
	for _, fn := range P.Funcs {
		if !inModule(funcPkgPath(fn)) || fn.Name() == "AddIssue" || fn.Name() == "NewError" {
			continue
		}
		eachInstr(fn, func(_ *ssa.BasicBlock, _ int, in ssa.Instruction) {
			ci := callOf(in)
			if ci == nil {
				return
			}
			name := ""
			switch {
			case ci.invoke != nil:
				name = ci.invoke.Name()
			case ci.static != nil:
				name = ci.static.Name()
			}
			if name != "AddIssue" {
				return
			}
			args := ci.args()
			if len(args) == 0 {
				return
			}
			arg := args[len(args)-1]
			if !isIssuePtr(arg.Type()) {
				return
			}
			n++
			c := fmt.Sprintf("%s#AddIssue@%d", fname(fn), n)
			if o := origin(arg, 0); o == "ctor" {
				r.ok("C11/issues-built-by-context", c, P.ipos(in), "the issue comes from an issue constructor of the node context")
			} else {
				r.bad("C11/issues-built-by-context", c, P.ipos(in), "the issue handed to AddIssue is "+o+", not the product of one of the context's issue constructors: it is reported without the node's type (and without a message under a language-map formatter)")
			}
		})
	}
	r.floor("C11/issues-built-by-context", 10)
}

// checkCtxValueStore: "the language named in this execution's context" is the value the *last* WithCtxValue for that
// key stored. The execution context keeps its values in one map; the rule demands the two halves of that: the setter
// (the *ExecCtx method taking a string key and a value) performs `m[key] = val` on every path, and every return of the
// getter (string key -> any) is the lookup `m[key]` in the same field - or a nil constant behind a test of that map or
// of the lookup's ok. A second place a value may live in (an inline first pair, a cache of the last lookup) has its own
// precedence, and that precedence is what goes wrong.
func (P *Prog) checkCtxValueStore(r *Result, rule string) {
	R := P.roles
	var setter, getter *ssa.Function
	for _, fn := range P.Funcs {
		if fn.Parent() != nil || fn.Signature.Recv() == nil || !P.isPtrTo(fn.Signature.Recv().Type(), R.ExecCtx) || fn.Blocks == nil {
			continue
		}
		ps, rs := fn.Signature.Params(), fn.Signature.Results()
		isStr := func(t types.Type) bool {
			b, ok := t.Underlying().(*types.Basic)
			return ok && b.Kind() == types.String
		}
		switch {
		case ps.Len() == 2 && rs.Len() == 0 && isStr(ps.At(0).Type()) && types.IsInterface(ps.At(1).Type()):
			setter = fn
		case ps.Len() == 1 && rs.Len() == 1 && isStr(ps.At(0).Type()) && types.IsInterface(rs.At(0).Type()):
			getter = fn
		}
	}
	if setter == nil || getter == nil {
		r.undecided(rule, "ExecCtx value store", "-", "the setter (string, any) / getter (string) any of the execution context were not found")
		return
	}
	r.sawFunc(fname(setter))
	r.sawFunc(fname(getter))
	// setter: a MapUpdate(recv.F, key, val) whose block every return is dominated by
	var mapField *types.Var
	okSet := false
	eachInstr(setter, func(b *ssa.BasicBlock, _ int, in ssa.Instruction) {
		mu, ok := in.(*ssa.MapUpdate)
		if !ok || cv(mu.Key) != ssa.Value(setter.Params[1]) || cv(mu.Value) != ssa.Value(setter.Params[2]) {
			return
		}
		base, f := loadOfField(cv(mu.Map))
		if f == nil || cv(base) != ssa.Value(setter.Params[0]) {
			return
		}
		all := true
		for _, rb := range setter.Blocks {
			if len(rb.Instrs) > 0 {
				if _, isRet := rb.Instrs[len(rb.Instrs)-1].(*ssa.Return); isRet && rb != b && !b.Dominates(rb) {
					all = false
				}
			}
		}
		if all {
			okSet, mapField = true, f
		}
	})
	if !okSet {
		r.bad(rule, fname(setter), P.pos(setter.Pos()), "some path through the setter does not store the value under its key in the context's map: a value set for a key can be shadowed by, or hidden behind, one set earlier (the last WithCtxValue for a key must win)")
	} else {
		r.ok(rule, fname(setter), P.pos(setter.Pos()), "m[key] = val on every path")
	}
	var problems []string
	eachInstr(getter, func(b *ssa.BasicBlock, _ int, in ssa.Instruction) {
		rt, ok := in.(*ssa.Return)
		if !ok || len(rt.Results) != 1 {
			return
		}
		v := cv(rt.Results[0])
		if ex, isEx := v.(*ssa.Extract); isEx && ex.Index == 0 {
			v = ex.Tuple
		}
		if lk, isLk := v.(*ssa.Lookup); isLk {
			base, f := loadOfField(cv(lk.X))
			if f != nil && cv(base) == ssa.Value(getter.Params[0]) && cv(lk.Index) == ssa.Value(getter.Params[1]) && (mapField == nil || sameField(f, mapField)) {
				return
			}
		}
		if isNilConst(v) {
			for _, gd := range guardsOf(b) {
				if x, _, isN := isNilCompare(gd.If.Cond); isN {
					if _, f := loadOfField(cv(x)); f != nil && (mapField == nil || sameField(f, mapField)) {
						return
					}
				}
				if ex, isEx := gd.If.Cond.(*ssa.Extract); isEx && ex.Index == 1 {
					if _, isLk := ex.Tuple.(*ssa.Lookup); isLk {
						return
					}
				}
			}
		}
		problems = append(problems, "a return at "+P.ipos(in)+" is not the lookup of the key in the context's map")
	})
	if len(problems) > 0 {
		r.bad(rule, fname(getter), P.pos(getter.Pos()), strings.Join(uniqSorted(problems), "; ")+": the value read for a key may be one that a later WithCtxValue for the same key replaced")
	} else {
		r.ok(rule, fname(getter), P.pos(getter.Pos()), "every return is m[key]")
	}
}
