package main

import (
	"go/types"

	"golang.org/x/tools/go/ssa"
)

// Code units of a node function: the function itself, its closures, and the
// module helpers it calls (directly, deferred, or through another unit), each
// with the substitution that binds the helper's parameters to the actual
// arguments of that call site. Rules that look for a construct "in the node"
// (a callback call, a deferred post-transform runner) iterate over the units
// and evaluate values under the unit's substitution, so that moving part of a
// node function into a helper does not hide the construct.

type nodeUnit struct {
	fn       *ssa.Function
	env      map[ssa.Value]ssa.Value
	site     ssa.Instruction // MakeClosure / Call / Defer in the parent unit; nil for the node function
	parent   *nodeUnit
	deferred bool // the unit runs as a deferred call of its parent
	helper   bool // a named helper (not a closure)
}

// with evaluates f under the unit's substitution.
func (u *nodeUnit) with(f func()) {
	saved := substEnv
	substEnv = u.env
	defer func() { substEnv = saved }()
	f()
}

// root: the node function the unit belongs to.
func (u *nodeUnit) root() *nodeUnit {
	for u.parent != nil {
		u = u.parent
	}
	return u
}

const maxUnitDepth = 4

func (P *Prog) nodeUnits(nf *ssa.Function) []*nodeUnit {
	if m, ok := P.unitsMemo[nf]; ok {
		return m
	}
	out := P.unitsOf(nf, false)
	if P.unitsMemo == nil {
		P.unitsMemo = map[*ssa.Function][]*nodeUnit{}
	}
	P.unitsMemo[nf] = out
	return out
}

// allUnits: like nodeUnits, but every module helper is a unit, also the pure
// ones (a helper that only computes a value, such as the choice of a map).
func (P *Prog) allUnits(nf *ssa.Function) []*nodeUnit { return P.unitsOf(nf, true) }

func (P *Prog) unitsOf(nf *ssa.Function, pure bool) []*nodeUnit {
	var out []*nodeUnit
	var add func(u *nodeUnit, depth int, chain map[*ssa.Function]bool)
	add = func(u *nodeUnit, depth int, chain map[*ssa.Function]bool) {
		out = append(out, u)
		if depth >= maxUnitDepth {
			return
		}
		chain[u.fn] = true
		defer delete(chain, u.fn)
		eachInstr(u.fn, func(_ *ssa.BasicBlock, _ int, in ssa.Instruction) {
			// closures created here
			if mc, ok := in.(*ssa.MakeClosure); ok {
				if cl, ok := mc.Fn.(*ssa.Function); ok && !chain[cl] {
					def := false
					if refs := mc.Referrers(); refs != nil {
						for _, rf := range *refs {
							if d, ok := rf.(*ssa.Defer); ok && d.Call.Value == ssa.Value(mc) {
								def = true
							}
						}
					}
					add(&nodeUnit{fn: cl, env: u.env, site: in, parent: u, deferred: def}, depth+1, chain)
				}
				return
			}
			ci := callOf(in)
			if ci == nil || ci.static == nil {
				return
			}
			callee := ci.static
			if callee.Blocks == nil || callee.Parent() != nil || !inModule(funcPkgPath(callee)) || chain[callee] || P.isAnchorFn(callee) || !pure && !P.relevantFn(callee) {
				return
			}
			if _, isD := P.sharedCatchAnalysis().dispatchCallee(ci); isD {
				return
			}
			env := map[ssa.Value]ssa.Value{}
			for k, v := range u.env {
				env[k] = v
			}
			args := ci.instr.Common().Args
			u.with(func() {
				for k, p := range callee.Params {
					if k < len(args) {
						if a := cv(args[k]); a != ssa.Value(p) {
							env[p] = a
						}
					}
				}
			})
			_, isDefer := in.(*ssa.Defer)
			add(&nodeUnit{fn: callee, env: env, site: in, parent: u, deferred: isDefer, helper: true}, depth+1, chain)
		})
	}
	add(&nodeUnit{fn: nf, env: map[ssa.Value]ssa.Value{}}, 0, map[*ssa.Function]bool{})
	return out
}

// A loop region: the body of a map-range loop found in one of the code units of a node function, together
// with the closures and helpers called from that body (a `visit(key, schema, field, ptr)` callback handed to an
// iteration helper, resolved under the unit's substitution), each part with the substitution under which its
// values are to be read. Rules about "the field loop" iterate over the region, so the loop may live in the node
// function, in a helper, or be split between an iteration helper and a closure.
type regionPart struct {
	fn     *ssa.Function
	blocks map[*ssa.BasicBlock]bool // nil: the whole function
	env    map[ssa.Value]ssa.Value
}

type loopRegion struct {
	unit  *nodeUnit
	loop  rangeLoop
	parts []regionPart
}

// each calls f for every instruction of the region, under the substitution of its part.
func (lr *loopRegion) each(f func(part *regionPart, b *ssa.BasicBlock, in ssa.Instruction)) {
	for i := range lr.parts {
		pt := &lr.parts[i]
		saved := substEnv
		substEnv = pt.env
		for _, b := range pt.fn.Blocks {
			if pt.blocks != nil && !pt.blocks[b] {
				continue
			}
			for _, in := range b.Instrs {
				f(pt, b, in)
			}
		}
		substEnv = saved
	}
}

// schemaLoopRegions: the regions of the loops that range over a map of the node's kind with role `schema`
// (or, when elemIsSchema is false, over any map) in the code units of nf.
func (P *Prog) schemaLoopRegions(nf *ssa.Function) []*loopRegion {
	var out []*loopRegion
	for _, u := range P.nodeUnits(nf) {
		for _, l := range mapRangeLoops(u.fn) {
			mt, ok := l.rng.X.Type().Underlying().(*types.Map)
			if !ok || P.roles.ZogSchema == nil || !types.Identical(mt.Elem().Underlying(), P.roles.ZogSchema) {
				continue
			}
			lr := &loopRegion{unit: u, loop: l}
			lr.parts = append(lr.parts, regionPart{fn: u.fn, blocks: l.body, env: u.env})
			seen := map[*ssa.Function]bool{u.fn: true}
			var addCallees func(pt regionPart, depth int)
			addCallees = func(pt regionPart, depth int) {
				if depth > 3 {
					return
				}
				saved := substEnv
				substEnv = pt.env
				defer func() { substEnv = saved }()
				for _, b := range pt.fn.Blocks {
					if pt.blocks != nil && !pt.blocks[b] {
						continue
					}
					for _, in := range b.Instrs {
						ci := callOf(in)
						if ci == nil {
							continue
						}
						var callee *ssa.Function
						switch {
						case ci.static != nil && ci.static.Blocks != nil && inModule(funcPkgPath(ci.static)) && !P.isAnchorFn(ci.static):
							callee = ci.static
						case ci.dynamic:
							switch x := cv(ci.instr.Common().Value).(type) {
							case *ssa.MakeClosure:
								callee, _ = x.Fn.(*ssa.Function)
							case *ssa.Function:
								if inModule(funcPkgPath(x)) {
									callee = x
								}
							}
						}
						if callee == nil || callee.Blocks == nil || seen[callee] {
							continue
						}
						if _, isD := P.sharedCatchAnalysis().dispatchCallee(ci); isD {
							continue
						}
						seen[callee] = true
						env := map[ssa.Value]ssa.Value{}
						for k, v := range pt.env {
							env[k] = v
						}
						args := ci.instr.Common().Args
						for k, prm := range callee.Params {
							if k < len(args) {
								env[prm] = args[k]
							}
						}
						np := regionPart{fn: callee, env: env}
						lr.parts = append(lr.parts, np)
						addCallees(np, depth+1)
					}
				}
			}
			addCallees(lr.parts[0], 0)
			out = append(out, lr)
		}
	}
	return out
}

// closedCallSites returns the static call sites of a module function that can
// only ever run from them: fn is a named, unexported function or method that is
// never used as a value (func value, method value, bound closure) and that no
// interface call of the module can dispatch to. closed=false otherwise.
func (P *Prog) closedCallSites(fn *ssa.Function) (sites []ssa.CallInstruction, closed bool) {
	fn = originOf(fn)
	if fn.Object() == nil || fn.Object().Exported() || fn.Parent() != nil || fn.Blocks == nil {
		return nil, false
	}
	closed = true
	isMethod := fn.Signature.Recv() != nil
	for _, caller := range P.Funcs {
		eachInstr(caller, func(_ *ssa.BasicBlock, _ int, in ssa.Instruction) {
			if ci := callOf(in); ci != nil {
				if ci.static == fn {
					if _, isGo := in.(*ssa.Go); isGo {
						closed = false
					}
					sites = append(sites, ci.instr)
				}
				if isMethod && ci.invoke != nil && ci.invoke.Name() == fn.Name() {
					closed = false
				}
			}
			var ops []*ssa.Value
			for k, op := range in.Operands(ops) {
				f, isF := (*op).(*ssa.Function)
				if !isF || originOf(f) != fn {
					continue
				}
				if c, isCall := in.(ssa.CallInstruction); isCall && k == 0 && !c.Common().IsInvoke() {
					continue // the callee operand of a static call
				}
				closed = false
			}
		})
	}
	return sites, closed
}

// withCallSite runs f with fn's parameters bound to the actual arguments of
// the call (on top of the bindings already in force).
func withCallSite(site ssa.CallInstruction, fn *ssa.Function, f func()) {
	saved := substEnv
	env := map[ssa.Value]ssa.Value{}
	for k, v := range saved {
		env[k] = v
	}
	args := site.Common().Args
	for i, prm := range fn.Params {
		if i < len(args) {
			env[prm] = args[i]
		}
	}
	substEnv = env
	defer func() { substEnv = saved }()
	f()
}
