package main

import (
	"golang.org/x/tools/go/ssa"
)

// Code units of a node function: the function itself, its closures, and the
// module helpers it calls (directly, deferred, or through another unit), each
// with the substitution that binds the helper's parameters to the actual
// arguments of that call site. Rules that look for a construct "in the node"
// (a callback call, a deferred post-transform runner) iterate over the units
// and evaluate values under the unit's substitution, so that moving part of a
// node function into a helper does not hide the construct.

type nodeUnit struct {
	fn       *ssa.Function
	env      map[ssa.Value]ssa.Value
	site     ssa.Instruction // MakeClosure / Call / Defer in the parent unit; nil for the node function
	parent   *nodeUnit
	deferred bool // the unit runs as a deferred call of its parent
	helper   bool // a named helper (not a closure)
}

// with evaluates f under the unit's substitution.
func (u *nodeUnit) with(f func()) {
	saved := substEnv
	substEnv = u.env
	defer func() { substEnv = saved }()
	f()
}

// root: the node function the unit belongs to.
func (u *nodeUnit) root() *nodeUnit {
	for u.parent != nil {
		u = u.parent
	}
	return u
}

const maxUnitDepth = 4

func (P *Prog) nodeUnits(nf *ssa.Function) []*nodeUnit {
	if m, ok := P.unitsMemo[nf]; ok {
		return m
	}
	var out []*nodeUnit
	var add func(u *nodeUnit, depth int, chain map[*ssa.Function]bool)
	add = func(u *nodeUnit, depth int, chain map[*ssa.Function]bool) {
		out = append(out, u)
		if depth >= maxUnitDepth {
			return
		}
		chain[u.fn] = true
		defer delete(chain, u.fn)
		eachInstr(u.fn, func(_ *ssa.BasicBlock, _ int, in ssa.Instruction) {
			// closures created here
			if mc, ok := in.(*ssa.MakeClosure); ok {
				if cl, ok := mc.Fn.(*ssa.Function); ok && !chain[cl] {
					def := false
					if refs := mc.Referrers(); refs != nil {
						for _, rf := range *refs {
							if d, ok := rf.(*ssa.Defer); ok && d.Call.Value == ssa.Value(mc) {
								def = true
							}
						}
					}
					add(&nodeUnit{fn: cl, env: u.env, site: in, parent: u, deferred: def}, depth+1, chain)
				}
				return
			}
			ci := callOf(in)
			if ci == nil || ci.static == nil {
				return
			}
			callee := ci.static
			if callee.Blocks == nil || callee.Parent() != nil || !inModule(funcPkgPath(callee)) || chain[callee] || P.isAnchorFn(callee) || !P.relevantFn(callee) {
				return
			}
			if _, isD := P.sharedCatchAnalysis().dispatchCallee(ci); isD {
				return
			}
			env := map[ssa.Value]ssa.Value{}
			for k, v := range u.env {
				env[k] = v
			}
			args := ci.instr.Common().Args
			u.with(func() {
				for k, p := range callee.Params {
					if k < len(args) {
						if a := cv(args[k]); a != ssa.Value(p) {
							env[p] = a
						}
					}
				}
			})
			_, isDefer := in.(*ssa.Defer)
			add(&nodeUnit{fn: callee, env: env, site: in, parent: u, deferred: isDefer, helper: true}, depth+1, chain)
		})
	}
	add(&nodeUnit{fn: nf, env: map[ssa.Value]ssa.Value{}}, 0, map[*ssa.Function]bool{})
	if P.unitsMemo == nil {
		P.unitsMemo = map[*ssa.Function][]*nodeUnit{}
	}
	P.unitsMemo[nf] = out
	return out
}
