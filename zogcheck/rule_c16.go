package main

import (
	"fmt"
	"go/ast"
	"go/token"
	"go/types"
	"strings"

	"golang.org/x/tools/go/ssa"
)

func init() { register("C16", checkC16) }

// provenance of a slice / map value in a derivation function
type prov struct {
	kind string // "fresh", "shared", "unknown"
	desc string
}

// storesToField lists stores to field f of object X (same address) in fn.
func storesToField(fn *ssa.Function, X ssa.Value, f *types.Var) []*ssa.Store {
	var out []*ssa.Store
	eachInstr(fn, func(_ *ssa.BasicBlock, _ int, in ssa.Instruction) {
		st, ok := in.(*ssa.Store)
		if !ok {
			return
		}
		b, ff := fieldVar(st.Addr)
		if ff != nil && sameField(ff, f) && cv(b) == cv(X) {
			out = append(out, st)
		}
	})
	return out
}

func instrBefore(a, b ssa.Instruction) bool {
	if a.Block() == b.Block() {
		return instrIndex(a) < instrIndex(b)
	}
	return a.Block().Dominates(b.Block())
}

// fieldValuesAt resolves the possible values of field f of the function-local
// object X (an Alloc or a call result) as seen by instruction `at`: every
// store that can reach `at` and is not definitely overwritten by a later store
// that dominates `at`. needInitial reports that some path reaches `at` without
// any store (the value the object was created with is also possible).
func fieldValuesAt(fn *ssa.Function, X ssa.Value, f *types.Var, at ssa.Instruction) (vals []ssa.Value, needInitial bool) {
	sts := storesToField(fn, X, f)
	canReach := func(st *ssa.Store) bool {
		if st.Block() == at.Block() {
			if instrIndex(st) < instrIndex(at) {
				return true
			}
			return inLoop(st.Block())
		}
		return reachFromSuccs(st.Block(), nil)[at.Block()]
	}
	var cand []*ssa.Store
	for _, st := range sts {
		if canReach(st) {
			cand = append(cand, st)
		}
	}
	anyDom := false
	for _, st := range cand {
		killed := false
		for _, st2 := range cand {
			if st2 != st && instrBefore(st, st2) && instrBefore(st2, at) {
				killed = true
			}
		}
		if instrBefore(st, at) {
			anyDom = true
		}
		if !killed {
			vals = append(vals, st.Val)
		}
	}
	return vals, !anyDom
}

type derivCtx struct {
	P     *Prog
	fn    *ssa.Function
	outer *derivCtx // the derivation whose helper this is (locals of the caller stay local)
}

// valueProv classifies where a slice/map value comes from, as seen at `at`.
func (d *derivCtx) valueProv(v ssa.Value, at ssa.Instruction, depth int) prov {
	P := d.P
	if depth > 8 {
		return prov{"unknown", "too deep"}
	}
	v = cv(v)
	switch x := v.(type) {
	case *ssa.MakeMap, *ssa.MakeSlice:
		return prov{"fresh", "make in " + fname(d.fn)}
	case *ssa.Const:
		return prov{"fresh", "nil/constant"}
	case *ssa.Slice:
		if x.Max != nil && x.High != nil && sameValue(x.Max, x.High) {
			return prov{"fresh", "full slice expression clips capacity: appends reallocate"}
		}
		if al, ok := x.X.(*ssa.Alloc); ok && al.Parent() == d.fn {
			return prov{"fresh", "slice of a local array literal"}
		}
		return d.valueProv(x.X, at, depth+1)
	case *ssa.Phi:
		res := prov{"fresh", "all phi inputs fresh"}
		for _, e := range x.Edges {
			p := d.valueProv(e, at, depth+1)
			if p.kind != "fresh" {
				return p
			}
		}
		return res
	case *ssa.Call:
		ci := callOf(x)
		if ci.builtin == "append" {
			p0 := d.valueProv(x.Call.Args[0], x, depth+1)
			if p0.kind == "fresh" {
				return prov{"fresh", "append onto a fresh slice copies the elements"}
			}
			return p0
		}
		if ci.static != nil {
			n := ci.static.String()
			if on := originName(ci.static); on == "slices.Clip" || strings.HasPrefix(n, "slices.Clip[") {
				return prov{"fresh", "slices.Clip: capacity clipped to length, appends reallocate"}
			}
			if n == "slices.Clone" || n == "maps.Clone" || strings.HasPrefix(n, "slices.Clone[") || strings.HasPrefix(n, "maps.Clone[") {
				return prov{"fresh", n}
			}
			if ci.static.Pkg != nil && (ci.static.Pkg.Pkg.Path() == "slices" || ci.static.Pkg.Pkg.Path() == "maps") && strings.HasPrefix(ci.static.Name(), "Clone") {
				return prov{"fresh", n}
			}
			if o := ci.static.Origin(); o != nil && (o.String() == "slices.Clone" || o.String() == "maps.Clone") {
				return prov{"fresh", o.String()}
			}
		}
		// an unexported helper returning a slice or map (a generic `joinHooks(first, second)`): the provenance of
		// what it returns, with its parameters bound to this call's arguments
		if ci.static != nil && formulaHelper(ci.static) && depth < 6 {
			callee := ci.static
			saved := substEnv
			substEnv = map[ssa.Value]ssa.Value{}
			for k, v2 := range saved {
				substEnv[k] = v2
			}
			for k, prm := range callee.Params {
				if k < len(x.Call.Args) {
					substEnv[prm] = x.Call.Args[k]
				}
			}
			sub := &derivCtx{P: d.P, fn: callee, outer: d}
			res := prov{"fresh", "every return of " + fname(callee) + " is fresh"}
			n := 0
			eachInstr(callee, func(_ *ssa.BasicBlock, _ int, in ssa.Instruction) {
				rt, ok := in.(*ssa.Return)
				if !ok || len(rt.Results) != 1 || res.kind != "fresh" {
					return
				}
				n++
				if pr := sub.valueProv(rt.Results[0], rt, depth+1); pr.kind != "fresh" {
					res = pr
					res.desc += " (returned by " + fname(callee) + ")"
				}
			})
			substEnv = saved
			if n > 0 {
				return res
			}
		}
		return prov{"unknown", "result of " + ci.calleeName()}
	case *ssa.UnOp:
		if x.Op != token.MUL {
			return prov{"unknown", "op"}
		}
		base, f := fieldVar(x.X)
		if f == nil {
			return prov{"unknown", "load"}
		}
		bv := cv(base)
		// field of a function-local object?
		if d.isLocalObject(bv) {
			return d.objFieldProv(bv, f, x, depth+1)
		}
		return prov{"shared", fmt.Sprintf("field %s of operand %s", f.Name(), describeOperand(bv))}
	}
	_ = P
	return prov{"unknown", shortName(fmt.Sprintf("%T", v))}
}

func describeOperand(v ssa.Value) string {
	if p, ok := v.(*ssa.Parameter); ok {
		return p.Name()
	}
	return v.Name()
}

func (d *derivCtx) isLocalObject(v ssa.Value) bool {
	if d.outer != nil && d.outer.isLocalObject(v) {
		return true
	}
	switch x := v.(type) {
	case *ssa.Alloc:
		return x.Parent() == d.fn
	case *ssa.Call:
		return P_isKindPtr(d.P, x.Type())
	case *ssa.Phi:
		for _, e := range x.Edges {
			if !d.isLocalObject(cv(e)) {
				return false
			}
		}
		return true
	}
	return false
}

func P_isKindPtr(P *Prog, t types.Type) bool {
	_, isPtr := t.Underlying().(*types.Pointer)
	return isPtr && P.roles.isKind(t)
}

// calleeFieldProv: what did callee g store into field f of the object it returns?
func (d *derivCtx) calleeFieldProv(c *ssa.Call, g *ssa.Function, f *types.Var, depth int) prov {
	var ret ssa.Value
	eachInstr(g, func(_ *ssa.BasicBlock, _ int, in ssa.Instruction) {
		if r, ok := in.(*ssa.Return); ok && len(r.Results) == 1 {
			ret = cv(r.Results[0])
		}
	})
	if ret == nil {
		return prov{"unknown", "callee result"}
	}
	// (the helper's parameters stand for this call's arguments: `cloneWith(fields)` stores what it is given)
	saved := substEnv
	substEnv = map[ssa.Value]ssa.Value{}
	for k, v2 := range saved {
		substEnv[k] = v2
	}
	for k, prm := range g.Params {
		if k < len(c.Call.Args) {
			substEnv[prm] = c.Call.Args[k]
		}
	}
	defer func() { substEnv = saved }()
	sub := &derivCtx{P: d.P, fn: g, outer: d}
	if !sub.isLocalObject(ret) {
		return prov{"shared", "callee " + fname(g) + " returns an existing object"}
	}
	var retInstr ssa.Instruction
	eachInstr(g, func(_ *ssa.BasicBlock, _ int, in ssa.Instruction) {
		if r, ok := in.(*ssa.Return); ok {
			retInstr = r
		}
	})
	p := sub.objFieldProv(ret, f, retInstr, depth+1)
	if p.kind == "shared" {
		p.desc += " (stored by " + fname(g) + ")"
	}
	return p
}

// checkNoElementOverwrite: derived schemas may share the *elements* of their tests / transforms slices with the
// schema they were derived from (a capacity-clipped slice shares its array up to its length), which is safe only as
// long as nobody writes an element in place. No module function stores into an element of a slice of tests or of
// post-transforms unless that slice was made in the same function.
func (P *Prog) checkNoElementOverwrite(r *Result, rule string) {
	R := P.roles
	isRoleElem := func(t types.Type) bool {
		if R.Test != nil && types.Identical(t.Underlying(), R.Test.Underlying()) {
			return true
		}
		if sig, ok := t.Underlying().(*types.Signature); ok && sig.Params().Len() == 2 && sig.Results().Len() == 1 {
			// PostTransform: func(any, Ctx) error
			if it, ok := sig.Params().At(1).Type().Underlying().(*types.Interface); ok && R.Ctx != nil && types.Identical(it, R.Ctx) {
				return true
			}
		}
		return false
	}
	var fresh func(v ssa.Value, d int) bool
	fresh = func(v ssa.Value, d int) bool {
		if d > 5 {
			return false
		}
		switch x := cv(v).(type) {
		case *ssa.MakeSlice:
			return true
		case *ssa.Slice:
			if al, ok := x.X.(*ssa.Alloc); ok {
				return al.Parent() == x.Parent()
			}
			return fresh(x.X, d+1)
		case *ssa.Call:
			ci := callOf(x)
			if ci.builtin == "append" {
				return fresh(x.Call.Args[0], d+1)
			}
			if ci.static != nil && (originName(ci.static) == "slices.Clone") {
				return true
			}
		case *ssa.Phi:
			for _, e := range x.Edges {
				if !fresh(e, d+1) {
					return false
				}
			}
			return true
		}
		return false
	}
	reads, writes := 0, 0
	for _, fn := range P.Funcs {
		if !inModule(funcPkgPath(fn)) {
			continue
		}
		eachInstr(fn, func(_ *ssa.BasicBlock, _ int, in ssa.Instruction) {
			ia, ok := in.(*ssa.IndexAddr)
			if !ok {
				return
			}
			sl, ok := ia.X.Type().Underlying().(*types.Slice)
			if !ok || !isRoleElem(sl.Elem()) {
				return
			}
			reads++
			if ia.Referrers() == nil {
				return
			}
			for _, rf := range *ia.Referrers() {
				var st *ssa.Store
				switch x := rf.(type) {
				case *ssa.Store:
					if x.Addr == ssa.Value(ia) {
						st = x
					}
				case *ssa.FieldAddr:
					// tests[i].Field = ...
					if x.Referrers() != nil {
						for _, u := range *x.Referrers() {
							if s2, ok := u.(*ssa.Store); ok && s2.Addr == ssa.Value(x) {
								st = s2
							}
						}
					}
				}
				if st == nil {
					continue
				}
				writes++
				c := fmt.Sprintf("%s#element-store@%d", fname(fn), writes)
				if fresh(ia.X, 0) {
					r.ok(rule, c, P.ipos(st), "the element written belongs to a slice made in this function")
				} else {
					r.bad(rule, c, P.ipos(st), "an element of a tests / post-transforms slice is overwritten in place: schemas derived with Pick, Omit or Extend share those elements with their base (a clipped slice shares its array), so the base and its other derivations silently get the new test")
				}
			}
		})
	}
	if reads == 0 {
		r.broken("vacuous: the element-overwrite rule saw no indexing of a tests / post-transforms slice")
	}
	r.Extra["role_slice_index_sites"] = reads
	r.Extra["role_slice_element_stores"] = writes
	if writes == 0 {
		r.ok(rule, "module", "-", fmt.Sprintf("no element of a tests / post-transforms slice is stored to in place (%d indexing sites looked at)", reads))
	}
}

func checkC16(P *Prog, r *Result) {
	R := P.roles
	r.Explanation = "Decides independence of derived struct schemas structurally: in every function that builds a new schema object from existing ones (Pick, Omit, Extend, Merge and their helper), " +
		"(no-shared-backing) the tests/postTransforms slices of the returned object are fresh or capacity-clipped, never the operand's own slice header (whose spare capacity later appends would overwrite); " +
		"(fresh-map / operands-read-only) every map update, delete and maps.Copy destination resolves, by flow-sensitive field resolution on the local object, to a map made in that call, never an operand's field map; " +
		"(operand-order) Merge copies receiver before other before others for fields, tests and transforms; (selection) Pick/Omit/Extend touch exactly the keys named by their arguments. " +
		"Nested schemas are shared by reference by documentation. It does not decide behavioural equivalence with a hand-written schema on every input."
	ss := R.KindByName["StructSchema"]
	if ss == nil {
		r.broken("StructSchema kind not found")
		return
	}
	// derivation functions: functions returning a schema-kind object they allocated
	// themselves, or the result of another derivation function (fixpoint).
	isDeriv := map[*ssa.Function]bool{}
	for changed := true; changed; {
		changed = false
		for _, fn := range P.Funcs {
			// a method of a kind, or a plain function taking a kind object (a helper such as a clone function)
			if isDeriv[fn] || fn.Parent() != nil || len(fn.Params) == 0 || !R.isKind(fn.Params[0].Type()) || funcPkgPath(fn) != pkgZog {
				continue
			}
			res := fn.Signature.Results()
			if res.Len() != 1 || !R.isKind(res.At(0).Type()) {
				continue
			}
			eachInstr(fn, func(_ *ssa.BasicBlock, _ int, in ssa.Instruction) {
				rt, ok := in.(*ssa.Return)
				if !ok || len(rt.Results) != 1 {
					return
				}
				var visit func(v ssa.Value, d int)
				visit = func(v ssa.Value, d int) {
					v = cv(v)
					switch x := v.(type) {
					case *ssa.Alloc:
						if x.Heap && !isDeriv[fn] {
							isDeriv[fn] = true
							changed = true
						}
					case *ssa.Call:
						if ci := callOf(x); ci.static != nil && isDeriv[ci.static] && !isDeriv[fn] {
							isDeriv[fn] = true
							changed = true
						}
					case *ssa.Phi:
						if d < 4 {
							for _, e := range x.Edges {
								visit(e, d+1)
							}
						}
					}
				}
				visit(rt.Results[0], 0)
			})
		}
	}
	var derivs []*ssa.Function
	for _, fn := range sortedFuncs(isDeriv) {
		derivs = append(derivs, fn)
	}
	if len(derivs) < 4 {
		r.broken("vacuous: %d derivation functions found (floor 4: Merge, Omit, Pick, Extend and their clone helper)", len(derivs))
	}
	kindStruct := ss.Underlying().(*types.Struct)
	for _, fn := range derivs {
		r.sawFunc(fname(fn))
		d := &derivCtx{P: P, fn: fn}
		// returned object(s)
		var rets []*ssa.Return
		eachInstr(fn, func(_ *ssa.BasicBlock, _ int, in ssa.Instruction) {
			if rt, ok := in.(*ssa.Return); ok {
				rets = append(rets, rt)
			}
		})
		for _, rt := range rets {
			if !ast.IsExported(fn.Name()) {
				break // helpers are judged through the exported functions that use them
			}
			obj := cv(rt.Results[0])
			if !d.isLocalObject(obj) {
				r.bad("C16/fresh-object", fname(fn), P.ipos(rt), "derivation returns an existing schema object instead of a new one")
				continue
			}
			for i := 0; i < kindStruct.NumFields(); i++ {
				f := kindStruct.Field(i)
				var isSlice, isMap bool
				switch f.Type().Underlying().(type) {
				case *types.Slice:
					isSlice = true
				case *types.Map:
					isMap = true
				}
				if !isSlice && !isMap {
					continue
				}
				p := d.objFieldProv(obj, f, rt, 0)
				c := fmt.Sprintf("%s#%s", fname(fn), P.roleName(f))
				rule := "C16/no-shared-backing"
				if isMap {
					rule = "C16/fresh-map"
				}
				switch p.kind {
				case "fresh":
					r.ok(rule, c, P.ipos(rt), "field "+f.Name()+" of the returned schema: "+p.desc)
				case "shared":
					if isSlice {
						r.bad(rule, c, P.ipos(rt), fmt.Sprintf("the returned schema's %s slice shares its backing array with %s: a test/transform later appended to one schema can overwrite the other's", f.Name(), p.desc))
					} else {
						r.bad(rule, c, P.ipos(rt), fmt.Sprintf("the returned schema's field map is %s: the derived schema and its operand modify each other", p.desc))
					}
				default:
					r.undecided(rule, c, P.ipos(rt), "provenance of field "+f.Name()+" of the returned schema: "+p.desc)
				}
			}
		}
		// writes to maps / operands
		nW := 0
		var bad []string
		eachInstr(fn, func(_ *ssa.BasicBlock, _ int, in ssa.Instruction) {
			var target ssa.Value
			what := ""
			switch x := in.(type) {
			case *ssa.MapUpdate:
				target, what = x.Map, "map update"
			case *ssa.Store:
				// a store into a field of a non-local object is a write to an operand
				base, f := fieldVar(x.Addr)
				if f != nil && !d.isLocalObject(cv(base)) && R.isKind(cv(base).Type()) {
					nW++
					bad = append(bad, fmt.Sprintf("store to field %s of operand %s at %s", f.Name(), describeOperand(cv(base)), P.ipos(in)))
				}
				return
			default:
				ci := callOf(in)
				if ci == nil {
					return
				}
				if ci.builtin == "delete" {
					target, what = ci.instr.Common().Args[0], "delete"
				} else if ci.static != nil && (originName(ci.static) == "maps.Copy") {
					target, what = ci.instr.Common().Args[0], "maps.Copy destination"
				} else {
					return
				}
			}
			nW++
			p := d.valueProv(target, in, 0)
			if p.kind != "fresh" {
				bad = append(bad, fmt.Sprintf("%s at %s writes a map that is %s (%s)", what, P.ipos(in), p.kind, p.desc))
			}
		})
		if len(bad) > 0 {
			r.bad("C16/operands-read-only", fname(fn), P.pos(fn.Pos()), "derivation modifies one of its operands: "+strings.Join(bad, "; "))
		} else {
			r.ok("C16/operands-read-only", fname(fn), P.pos(fn.Pos()), fmt.Sprintf("%d map write(s)/operand store(s), all to maps made in this call", nW))
		}
	}
	r.floor("C16/no-shared-backing", 4)
	r.floor("C16/fresh-map", 3)
	r.floor("C16/operands-read-only", 3)

	// precondition: builder methods append in place (otherwise sharing would be harmless)
	inPlace := 0
	for _, fn := range P.Funcs {
		if fn.Signature.Recv() == nil || !sameNamed(namedOf(fn.Signature.Recv().Type()), ss) {
			continue
		}
		eachInstr(fn, func(_ *ssa.BasicBlock, _ int, in ssa.Instruction) {
			st, ok := in.(*ssa.Store)
			if !ok {
				return
			}
			b, f := fieldVar(st.Addr)
			if f == nil || cv(b) != ssa.Value(fn.Params[0]) {
				return
			}
			if c, ok := st.Val.(*ssa.Call); ok && callOf(c).builtin == "append" {
				if _, f2 := loadOfField(cv(c.Call.Args[0])); f2 != nil && sameField(f2, f) {
					inPlace++
				}
			}
		})
	}
	r.Extra["in_place_append_builders"] = inPlace
	if inPlace == 0 {
		r.info("no builder appends in place any more: C16/no-shared-backing is vacuous (sharing a slice header would be harmless)")
	}

	P.checkMergeOrder(r)
	P.checkSelection(r)
	P.checkNoElementOverwrite(r, "C16/no-element-overwrite")
	// a derived schema is governed by the field map the derivation built: execution keeps no state of its own in the
	// schema object (a field list resolved on first use and cached survives cloneShallow, so a schema derived from a
	// base that has already run still visits the base's fields) - C08's write-effects rule on the struct kind
	shareRule(P, r, checkC08, "C08/write-effects", func(o Obligation) bool { return strings.Contains(o.Construct, "StructSchema)") }, "C16/no-execution-state-in-schema", 2)
	P.checkSliceNilnessNotObserved(r, "C16/nil-and-empty-lists-alike")
}

func originName(fn *ssa.Function) string {
	if o := fn.Origin(); o != nil {
		return o.String()
	}
	return fn.String()
}

// objFieldProv: provenance of field f of the local object obj at instruction
// `at` (join over every store that can reach `at`, plus the creation value
// when some path has no store).
func (d *derivCtx) objFieldProv(obj ssa.Value, f *types.Var, at ssa.Instruction, depth int) prov {
	if depth > 10 {
		return prov{"unknown", "too deep"}
	}
	if ph, ok := obj.(*ssa.Phi); ok {
		res := prov{"fresh", "all inputs fresh"}
		for _, e := range ph.Edges {
			p := d.objFieldProv(cv(e), f, at, depth+1)
			if p.kind != "fresh" {
				return p
			}
			res.desc = p.desc
		}
		return res
	}
	vals, needInitial := fieldValuesAt(d.fn, obj, f, at)
	res := prov{"fresh", ""}
	for _, v := range vals {
		// evaluate each stored value at its own store (for loads of the same field inside it)
		var stAt ssa.Instruction = at
		for _, st := range storesToField(d.fn, obj, f) {
			if st.Val == v {
				stAt = st
			}
		}
		p := d.valueProv(v, stAt, depth+1)
		if p.kind != "fresh" {
			return p
		}
		res.desc = p.desc
	}
	if needInitial {
		switch x := obj.(type) {
		case *ssa.Alloc:
			if res.desc == "" {
				res.desc = "zero value of a new object"
			}
		case *ssa.Call:
			ci := callOf(x)
			if ci.static != nil && ci.static.Blocks != nil && inModule(funcPkgPath(ci.static)) {
				if ci.static == d.fn {
					if res.desc == "" {
						res.desc = "recursive call of the same derivation (checked by its own obligation)"
					}
				} else {
					p := d.calleeFieldProv(x, ci.static, f, depth+1)
					if p.kind != "fresh" {
						return p
					}
					if res.desc == "" {
						res.desc = p.desc
					}
				}
			} else {
				return prov{"unknown", "object returned by " + ci.calleeName()}
			}
		default:
			return prov{"unknown", "object"}
		}
	}
	return res
}

// checkMergeOrder: receiver before other before others.
func (P *Prog) checkMergeOrder(r *Result) {
	fn := P.fn("(*zog.StructSchema).Merge")
	if fn == nil {
		r.undecided("C16/operand-order", "Merge", "-", "(*StructSchema).Merge not found")
		return
	}
	r.sawFunc(fname(fn))
	recv, other := ssa.Value(fn.Params[0]), ssa.Value(fn.Params[1])
	srcOwner := func(v ssa.Value) ssa.Value {
		for _, rt := range P.rootsOf(v) {
			if rt.kind == rkParam {
				return rt.v
			}
		}
		return nil
	}
	// On the decision paths of Merge (helpers such as a generic `joinHooks(first, second)` entered, their
	// parameters bound to Merge's arguments): a copy event per `maps.Copy(dst, src)` / `append(dst, src...)` whose
	// source is a field of an operand, named by the role of that field and the operand it belongs to; the
	// recursive fold over the remaining operands.
	spec := &pathSpec{name: "merge-order", inlineAll: true, reentrant: true}
	spec.keep = func(f *ssa.Function) bool { return f == fn || (f.Parent() == nil && !formulaHelper(f)) }
	spec.cond = func(iff *ssa.If) (string, string, string) { return "", "", "" }
	ownerName := func(v ssa.Value) string {
		switch srcOwner(v) {
		case recv:
			return "recv"
		case other:
			return "other"
		}
		if len(fn.Params) == 3 && srcOwner(v) == ssa.Value(fn.Params[2]) {
			return "others"
		}
		return "?"
	}
	spec.events = func(in ssa.Instruction) []pathItem {
		ci := callOf(in)
		if ci == nil {
			return nil
		}
		if ci.static == fn {
			// the fold `acc = acc.Merge(o)`: the accumulated schema is the receiver (it comes first, so the
			// later operand wins) and the next of the remaining operands is the argument
			prob := ""
			args := ci.instr.Common().Args
			fromOthers := func(v ssa.Value) bool {
				if len(fn.Params) < 3 {
					return false
				}
				for _, rt := range P.rootsOf(v) {
					if rt.kind == rkParam && rt.v == ssa.Value(fn.Params[2]) {
						return true
					}
				}
				return false
			}
			switch {
			case len(args) < 2:
				prob = "the fold passes no operand"
			case fromOthers(args[0]):
				prob = "the fold makes one of the remaining operands the receiver: the accumulated schema would override it on conflicts and its tests would run last"
			case !fromOthers(args[1]):
				prob = "the fold does not merge the next of the remaining operands into the accumulated schema"
			}
			// the same fold as tail recursion: `return acc.Merge(others[0], others[1:]...)`
			if len(args) == 3 && len(fn.Params) == 3 && prob == "" {
				isInt := func(v ssa.Value, n int64) bool {
					c, ok := v.(*ssa.Const)
					return ok && c.Value != nil && c.Int64() == n
				}
				others := ssa.Value(fn.Params[2])
				first, rest, returned := false, false, false
				if u, ok := cv(args[1]).(*ssa.UnOp); ok && u.Op == token.MUL {
					if ia, ok := u.X.(*ssa.IndexAddr); ok && cv(ia.X) == others && isInt(ia.Index, 0) {
						first = true
					}
				}
				if sl, ok := cv(args[2]).(*ssa.Slice); ok && cv(sl.X) == others && sl.Low != nil && isInt(sl.Low, 1) && sl.High == nil && sl.Max == nil {
					rest = true
				}
				if v, ok := in.(ssa.Value); ok {
					if refs := v.Referrers(); refs != nil {
						for _, rf := range *refs {
							if _, isRet := rf.(*ssa.Return); isRet {
								returned = true
							}
						}
					}
				}
				if first && rest && returned {
					return []pathItem{{kind: "FOLD", val: prob, in: in}, {kind: "FOLDTAIL", in: in}}
				}
			}
			return []pathItem{{kind: "FOLD", val: prob, in: in}}
		}
		if ci.static != nil && originName(ci.static) == "maps.Copy" {
			return []pathItem{{kind: "COPY:schema", val: ownerName(ci.instr.Common().Args[1]), in: in}}
		}
		if ci.builtin == "append" && len(ci.instr.Common().Args) == 2 {
			src := ci.instr.Common().Args[1]
			if _, f := loadOfField(cv(src)); f != nil {
				return []pathItem{{kind: "COPY:" + P.roleName(f), val: ownerName(src), in: in}}
			}
		}
		return nil
	}
	res := P.enumPathsSpec(fn, nil, spec)
	if res.capHit {
		r.undecided("C16/operand-order", "Merge", P.pos(fn.Pos()), "too many paths to enumerate")
		return
	}
	for _, field := range []string{"schema", "tests", "postTransforms"} {
		seenRecv, seenOther := false, false
		var reversed ssa.Instruction
		for _, p := range res.paths {
			ri, oi := -1, -1
			for i, it := range p.items {
				if it.kind != "COPY:"+field {
					continue
				}
				if it.val == "recv" && ri < 0 {
					ri = i
					seenRecv = true
				}
				if it.val == "other" && oi < 0 {
					oi = i
					seenOther = true
				}
			}
			if ri >= 0 && oi >= 0 && oi < ri && reversed == nil {
				reversed = p.items[oi].in
			}
		}
		c := "Merge#" + field
		switch {
		case !seenRecv || !seenOther:
			r.bad("C16/operand-order", c, P.pos(fn.Pos()), fmt.Sprintf("Merge does not carry over %s of both the receiver and the first operand", field))
		case reversed != nil:
			r.bad("C16/operand-order", c, P.ipos(reversed), fmt.Sprintf("Merge applies the operand's %s before the receiver's: on conflicts the earlier schema wins / order of tests is reversed", field))
		default:
			r.ok("C16/operand-order", c, P.pos(fn.Pos()), "receiver's "+field+" applied before the operand's")
		}
	}
	// the fold over the remaining operands happens in a loop, after every copy of the first two
	loopOK, sawFold := true, false
	foldProblem := ""
	for _, p := range res.paths {
		fi := p.index("FOLD")
		if fi < 0 {
			continue
		}
		sawFold = true
		if p.items[fi].val != "" && foldProblem == "" {
			foldProblem = p.items[fi].val + " (" + P.ipos(p.items[fi].in) + ")"
		}
		inLoop := false
		for _, it := range p.items[:fi] {
			if it.kind == "LOOP" && it.val == "iter" {
				inLoop = true
			}
		}
		if !inLoop && p.index("FOLDTAIL") != fi+1 {
			loopOK = false
		}
		for _, it := range p.items[fi+1:] {
			if strings.HasPrefix(it.kind, "COPY:") {
				loopOK = false
			}
		}
	}
	// the same fold written out: a loop over the remaining operands that copies each of the three roles of the
	// element itself, after the copies of the receiver and the first operand
	directOK, sawDirect := true, false
	if !sawFold {
		for _, p := range res.paths {
			iter := -1
			for i, it := range p.items {
				if it.kind == "LOOP" && it.val == "iter" && iter < 0 {
					iter = i
				}
				if strings.HasPrefix(it.kind, "COPY:") && it.val == "others" && iter < 0 {
					directOK = false // an element of the rest copied outside the loop
				}
			}
			if iter < 0 {
				continue
			}
			for _, field := range []string{"schema", "tests", "postTransforms"} {
				got := false
				for _, it := range p.items[iter+1:] {
					if it.kind == "COPY:"+field {
						if it.val == "others" {
							got = true
						} else {
							directOK = false // the receiver or the first operand copied again after an element of the rest
						}
					}
				}
				if got {
					sawDirect = true
				} else {
					directOK = false
				}
			}
		}
	}
	if foldProblem != "" {
		r.bad("C16/operand-order", "Merge#others", P.pos(fn.Pos()), foldProblem)
	} else if !sawFold && sawDirect && directOK {
		r.ok("C16/operand-order", "Merge#others", P.pos(fn.Pos()), "remaining operands copied role by role, in a loop after receiver and first operand")
	} else if loopOK && sawFold {
		r.ok("C16/operand-order", "Merge#others", P.pos(fn.Pos()), "remaining operands folded left after receiver and first operand")
	} else {
		r.bad("C16/operand-order", "Merge#others", P.pos(fn.Pos()), "the additional operands are not folded in order after the first two")
	}
	r.floor("C16/operand-order", 3)
}

func instrBeforeOrReach(a, b ssa.Instruction) bool {
	if a.Block() == b.Block() {
		return instrIndex(a) < instrIndex(b)
	}
	return a.Block().Dominates(b.Block()) || (reachFromSuccs(a.Block(), nil)[b.Block()] && !reachFromSuccs(b.Block(), nil)[a.Block()])
}

// checkSelection: Pick/Omit/Extend touch exactly the keys their arguments name.
func (P *Prog) checkSelection(r *Result) {
	var schemaMapT types.Type
	if f := P.kindField(P.roles.KindByName["StructSchema"], "schema"); f != nil {
		schemaMapT = f.Type()
	}
	isSchemaMap := func(t types.Type) bool {
		return schemaMapT != nil && types.Identical(t.Underlying(), schemaMapT.Underlying())
	}
	for _, name := range []string{"Pick", "Omit", "Extend"} {
		fn := P.fn("(*zog.StructSchema)." + name)
		if fn == nil {
			r.undecided("C16/selection", name, "-", "method not found")
			continue
		}
		r.sawFunc(fname(fn))
		recv := ssa.Value(fn.Params[0])
		arg := ssa.Value(fn.Params[1])
		var fromArgD func(v ssa.Value, depth int) bool
		fromArgD = func(v ssa.Value, depth int) bool {
			for _, rt := range P.rootsOf(v) {
				if rt.kind != rkParam {
					continue
				}
				if rt.v == arg {
					return true
				}
				// a parameter of a helper whose frame has been left (an element the helper put into the slice it
				// returned): named by the arguments when the actual is, at every call site of the helper
				prm, ok := rt.v.(*ssa.Parameter)
				if !ok || prm.Parent() == fn || depth >= 3 {
					continue
				}
				sites, closed := P.closedCallSites(prm.Parent())
				if !closed || len(sites) == 0 {
					continue
				}
				idx := -1
				for i, q := range prm.Parent().Params {
					if q == prm {
						idx = i
					}
				}
				all, n := true, 0
				for _, site := range sites {
					if site.Parent() != fn {
						if _, helperClosed := P.closedCallSites(site.Parent()); !helperClosed {
							continue // a call from another entry point does not feed this method
						}
					}
					n++
					if idx < 0 || idx >= len(site.Common().Args) || !fromArgD(site.Common().Args[idx], depth+1) {
						all = false
					}
				}
				if all && n > 0 {
					return true
				}
			}
			return false
		}
		fromArg := func(v ssa.Value) bool { return fromArgD(v, 0) }
		fromRecvSchema := func(v ssa.Value) bool {
			for _, rt := range P.rootsOf(v) {
				if rt.kind == rkParam && rt.v == recv {
					for _, s := range rt.path {
						if s.field != nil && P.roleName(s.field) == "schema" {
							return true
						}
					}
				}
			}
			return false
		}
		// keyOK: the key is named by the arguments (and, for a map[string]bool argument, its value was tested).
		// A key read out of a slice (`for _, k := range selectedKeys(vals)`) stands for every element the slice
		// was built from: each append site is judged where it is.
		keyOK := func(key ssa.Value, at ssa.Instruction) (named, tested bool) {
			named, tested = true, true
			srcs, isElem := sliceElemSources(key)
			if !isElem {
				// a key read out of a set built by a helper (`for k := range fieldSelection(vals...)`): every key the
				// set was given, judged where it was put in
				srcs, isElem = setKeySources(key)
			}
			if !isElem {
				return fromArg(key), P.boolMapGuardOK(at.Parent(), at.Block(), key)
			}
			if len(srcs) == 0 {
				return false, true
			}
			for _, e := range srcs {
				if !fromArg(e.val) {
					named = false
				}
				if !P.boolMapGuardOK(e.at.Parent(), e.at.Block(), e.val) {
					tested = false
				}
			}
			return
		}
		var bad []string
		nKeyOps := 0
		// decision paths of the method with its helpers entered (cloneWithOwnFields ...): events are
		// the operations on a field map, each classified under the substitution of its call chain
		keyOps := map[ssa.Instruction]bool{}
		spec := &pathSpec{name: "selection", inlineAll: true, symbolicLoopPhis: true}
		spec.cond = func(iff *ssa.If) (string, string, string) { return "", "", "" }
		spec.keep = func(f *ssa.Function) bool { return !strings.HasPrefix(funcPkgPath(f), "github.com/Oudwins/zog") }
		spec.events = func(in ssa.Instruction) []pathItem {
			ci := callOf(in)
			switch x := in.(type) {
			case *ssa.MapUpdate:
				if !isSchemaMap(x.Map.Type()) {
					// a key put into a local set of names (`omitted[name] = struct{}{}`): a key operation
					if mk, isMk := cv(x.Map).(*ssa.MakeMap); isMk && mk.Parent() == in.Parent() {
						if mt, ok := mk.Type().Underlying().(*types.Map); ok && types.Identical(mt.Key().Underlying(), types.Typ[types.String]) {
							var probs []string
							named, tested := keyOK(x.Key, in)
							if !named {
								probs = append(probs, "a key not named by the arguments is selected at "+P.ipos(in))
							}
							if !tested {
								probs = append(probs, "a key of a map[string]bool argument is used without testing its boolean value ("+P.ipos(in)+")")
							}
							if b, isB := constBool(cv(x.Value)); isB && !b {
								probs = append(probs, "a key is entered into the selection set as false ("+P.ipos(in)+")")
							}
							return []pathItem{{kind: "MARK", val: strings.Join(probs, "; "), in: in, aux: mk}}
						}
					}
					return nil
				}
				// `for k, s := range src { dst[k] = s }` is maps.Copy(dst, src) written out; under a membership
				// test of the key in a local set (`if _, gone := omitted[k]; !gone`) it is a filtered copy
				if src := rangedMapOf(x.Key, x.Value); src != nil && isSchemaMap(src.Type()) {
					v := "other"
					if fromRecvSchema(src) {
						v = "recv"
					} else if fromArg(src) {
						v = "arg"
					}
					if how, set := localSetFilter(in.Block(), x.Key); how != "" {
						return []pathItem{{kind: "COPY-FILTERED", val: v + ":" + how, in: in, aux: set}}
					}
					return []pathItem{{kind: "COPY", val: v, in: in}}
				}
				var probs []string
				named, tested := keyOK(x.Key, in)
				if !named {
					probs = append(probs, "a key not named by the arguments is written at "+P.ipos(in))
				}
				lk, ok := cv(x.Value).(*ssa.Lookup)
				if !ok || !fromRecvSchema(lk.X) || cv(lk.Index) != cv(x.Key) {
					probs = append(probs, "the value stored for a picked key is not the receiver's schema for that same key ("+P.ipos(in)+")")
				}
				if !tested {
					probs = append(probs, "a key of a map[string]bool argument is used without testing its boolean value ("+P.ipos(in)+")")
				}
				return []pathItem{{kind: "PUT", val: strings.Join(probs, "; "), in: in}}
			default:
				if ci == nil {
					return nil
				}
				if ci.builtin == "delete" && isSchemaMap(ci.instr.Common().Args[0].Type()) {
					var probs []string
					named, tested := keyOK(ci.instr.Common().Args[1], in)
					if !named {
						probs = append(probs, "a key not named by the arguments is deleted at "+P.ipos(in))
					}
					if !tested {
						probs = append(probs, "a key of a map[string]bool argument is used without testing its boolean value ("+P.ipos(in)+")")
					}
					return []pathItem{{kind: "DELETE", val: strings.Join(probs, "; "), in: in}}
				}
				// the entries of a selector map poured into a local set wholesale: the `false` entries go in as well (and
				// overwrite a `true` entered for the same key by an earlier argument)
				if ci.static != nil && originName(ci.static) == "maps.Copy" && !isSchemaMap(ci.instr.Common().Args[0].Type()) {
					if mk, isMk := cv(ci.instr.Common().Args[0]).(*ssa.MakeMap); isMk && mk.Parent() == in.Parent() {
						if mt, ok := mk.Type().Underlying().(*types.Map); ok && types.Identical(mt.Key().Underlying(), types.Typ[types.String]) {
							if st, ok := ci.instr.Common().Args[1].Type().Underlying().(*types.Map); ok {
								if b, isB := st.Elem().Underlying().(*types.Basic); isB && b.Kind() == types.Bool {
									return []pathItem{{kind: "MARK", val: "the entries of a map[string]bool argument are copied into the selection set without testing their boolean value (" + P.ipos(in) + "): a key entered as false counts as named, or un-names a key an earlier argument selected", in: in, aux: mk}}
								}
							}
						}
					}
				}
				if ci.static != nil && originName(ci.static) == "maps.Copy" && isSchemaMap(ci.instr.Common().Args[0].Type()) {
					src := ci.instr.Common().Args[1]
					v := "other"
					if fromRecvSchema(src) {
						v = "recv"
					} else if fromArg(src) {
						v = "arg"
					}
					return []pathItem{{kind: "COPY", val: v, in: in}}
				}
			}
			return nil
		}
		res := P.enumPathsSpec(fn, nil, spec)
		if res.capHit {
			r.undecided("C16/selection", name, P.pos(fn.Pos()), "too many paths to enumerate")
			continue
		}
		// copies made by a written-out loop are seen on the paths that end at the loop's back edge
		loopCopies := map[string]bool{}
		marks := map[ssa.Value][]ssa.Instruction{}
		type fcopy struct {
			how string
			set ssa.Value
			in  ssa.Instruction
		}
		var filtered []fcopy
		for _, p := range res.paths {
			for _, it := range p.items {
				switch it.kind {
				case "COPY":
					if p.end == "LOOP-BACK" {
						loopCopies[it.val] = true
					}
				case "MARK":
					keyOps[it.in] = true
					if it.val != "" {
						bad = append(bad, it.val)
					}
					marks[it.aux] = append(marks[it.aux], it.in)
				case "COPY-FILTERED":
					filtered = append(filtered, fcopy{it.val, it.aux, it.in})
				}
			}
		}
		// a filtered copy of the receiver's fields is the selection itself: keeping the marked keys (Pick) or
		// dropping them (Omit); the set must have been filled from the arguments before the copy runs
		filteredOK := ""
		for _, fc := range filtered {
			want := map[string]string{"Pick": "recv:in", "Omit": "recv:out"}[name]
			switch {
			case fc.how != want:
				bad = append(bad, "the receiver's fields are copied under the wrong membership test ("+fc.how+") at "+P.ipos(fc.in))
			case len(marks[fc.set]) == 0:
				bad = append(bad, "the set the copy is filtered by is never filled from the arguments ("+P.ipos(fc.in)+")")
			default:
				for _, mk := range marks[fc.set] {
					if !instrBeforeOrReach(mk, fc.in) {
						bad = append(bad, "the copy at "+P.ipos(fc.in)+" can run before the selection set is complete")
					}
				}
				filteredOK = fc.how
			}
		}
		for _, p := range res.paths {
			if p.end == "PANIC" {
				continue
			}
			recvCopied, argCopied := false, false
			for _, it := range p.items {
				switch it.kind {
				case "PUT", "DELETE":
					keyOps[it.in] = true
					if it.val != "" {
						bad = append(bad, it.val)
					}
					if it.kind == "DELETE" && name == "Omit" && !recvCopied {
						bad = append(bad, "a key is deleted before the receiver's fields are copied in ("+P.ipos(it.in)+")")
					}
				case "COPY":
					switch it.val {
					case "recv":
						recvCopied = true
					case "arg":
						argCopied = true
						if !recvCopied {
							bad = append(bad, "the argument's fields are copied before the receiver's (receiver would override) at "+P.ipos(it.in))
						}
					}
				}
			}
			if p.end != "RETURN" {
				continue
			}
			recvCopied = recvCopied || loopCopies["recv"]
			switch name {
			case "Pick":
				if recvCopied {
					bad = append(bad, "Pick copies all of the receiver's fields")
				}
			case "Omit":
				if !recvCopied && filteredOK != "recv:out" {
					bad = append(bad, "Omit does not start from a copy of all the receiver's fields")
				}
			case "Extend":
				if !recvCopied || !(argCopied || loopCopies["arg"]) {
					bad = append(bad, "Extend does not copy both the receiver's fields and the given fields")
				}
			}
		}
		nKeyOps = len(keyOps)
		switch name {
		case "Pick":
			if nKeyOps == 0 {
				bad = append(bad, "no key is ever selected")
			}
		case "Omit":
			if nKeyOps == 0 {
				bad = append(bad, "no key is ever removed")
			}
		}
		if len(bad) > 0 {
			r.bad("C16/selection", name, P.pos(fn.Pos()), strings.Join(uniqSorted(bad), "; "))
		} else {
			r.ok("C16/selection", name, P.pos(fn.Pos()), fmt.Sprintf("%d key operation(s), all on keys named by the arguments; copies in documented order", nKeyOps))
		}
	}
	r.floor("C16/selection", 3)
}

// localSetFilter: block b runs only when the key is (how = "in") or is not (how = "out") a member of a map
// made in the same function: `if _, ok := set[k]; ok`, `if set[k]`, and their negations.
func localSetFilter(b *ssa.BasicBlock, key ssa.Value) (how string, set ssa.Value) {
	for _, gd := range guardsOf(b) {
		c, neg := condKey(gd.If.Cond)
		member := gd.True != neg
		var lk *ssa.Lookup
		switch x := cv(c).(type) {
		case *ssa.Extract:
			if l, ok := x.Tuple.(*ssa.Lookup); ok && l.CommaOk && x.Index == 1 {
				lk = l
			}
		case *ssa.Lookup:
			if !x.CommaOk {
				lk = x
			}
		}
		if lk == nil || !sameValue(lk.Index, key) {
			continue
		}
		mk, ok := cv(lk.X).(*ssa.MakeMap)
		if !ok || mk.Parent() != b.Parent() {
			continue
		}
		if member {
			return "in", mk
		}
		return "out", mk
	}
	return "", nil
}

// setKeySources: key is the key of a range over a map that was made in the module (a set of names built by a
// helper): the keys put into it, each with the instruction that put it there. A whole map copied into the set
// (`maps.Copy(set, m)`) contributes m itself, with the copy as the site - its values cannot have been tested.
func setKeySources(key ssa.Value) (out []elemSource, isElem bool) {
	ek, ok := cv(key).(*ssa.Extract)
	if !ok || ek.Index != 1 {
		return nil, false
	}
	nx, ok := ek.Tuple.(*ssa.Next)
	if !ok || nx.IsString {
		return nil, false
	}
	rg, ok := nx.Iter.(*ssa.Range)
	if !ok {
		return nil, false
	}
	mk, ok := cv(rg.X).(*ssa.MakeMap)
	if !ok {
		return nil, false
	}
	if mt, ok := mk.Type().Underlying().(*types.Map); !ok || !types.Identical(mt.Key().Underlying(), types.Typ[types.String]) {
		return nil, false
	}
	for _, rf := range *mk.Referrers() {
		switch u := rf.(type) {
		case *ssa.MapUpdate:
			if u.Map == ssa.Value(mk) {
				if b, isB := constBool(cv(u.Value)); isB && !b {
					out = append(out, elemSource{mk, u}) // entered as false: not a selection
					continue
				}
				out = append(out, elemSource{u.Key, u})
			}
		case *ssa.DebugRef, *ssa.Range, *ssa.Return, *ssa.Lookup:
		case ssa.CallInstruction:
			ci := callOf(rf)
			switch {
			case ci != nil && ci.builtin == "len":
			case ci != nil && ci.builtin == "delete":
			case ci != nil && ci.static != nil && originName(ci.static) == "maps.Copy" && u.Common().Args[0] == ssa.Value(mk):
				out = append(out, elemSource{mk, rf}) // all keys of another map, values untested
			default:
				out = append(out, elemSource{mk, rf}) // handed to something else: unknown keys
			}
		default:
			out = append(out, elemSource{mk, rf})
		}
	}
	return out, true
}

// rangedMapOf: key and val are the key and the value of one and the same iteration of a range over a map;
// returns that map.
func rangedMapOf(key, val ssa.Value) ssa.Value {
	ek, ok1 := cv(key).(*ssa.Extract)
	ev, ok2 := cv(val).(*ssa.Extract)
	if !ok1 || !ok2 || ek.Tuple != ev.Tuple || ek.Index != 1 || ev.Index != 2 {
		return nil
	}
	nx, ok := ek.Tuple.(*ssa.Next)
	if !ok || nx.IsString {
		return nil
	}
	rg, ok := nx.Iter.(*ssa.Range)
	if !ok {
		return nil
	}
	if _, isMap := rg.X.Type().Underlying().(*types.Map); !isMap {
		return nil
	}
	return rg.X
}

// sliceElemSources: for a value read out of a slice (s[i]), the values the
// slice's elements can be, each with the instruction that put it there:
// through phis, append(acc, x...) and one-element varargs arrays, under the
// substitution in force (a helper's result is bound to what it returns).
// isElem=false when v is not an element read; an element source that cannot be
// enumerated is reported as the slice value itself.
type elemSource struct {
	val ssa.Value
	at  ssa.Instruction
}

func sliceElemSources(v ssa.Value) (out []elemSource, isElem bool) {
	ld, ok := cv(v).(*ssa.UnOp)
	if !ok || ld.Op != token.MUL {
		return nil, false
	}
	ia, ok := ld.X.(*ssa.IndexAddr)
	if !ok {
		return nil, false
	}
	if _, isSlice := ia.X.Type().Underlying().(*types.Slice); !isSlice {
		return nil, false
	}
	seen := map[ssa.Value]bool{}
	var walk func(s ssa.Value, depth int)
	walk = func(s ssa.Value, depth int) {
		if depth > 20 {
			out = append(out, elemSource{s, ld})
			return
		}
		// phis are followed through all their edges: the elements may come from any iteration
		if ph, isPhi := s.(*ssa.Phi); isPhi {
			if seen[ph] {
				return
			}
			seen[ph] = true
			for _, e := range ph.Edges {
				walk(e, depth+1)
			}
			return
		}
		s2 := cv(s)
		if ph, isPhi := s2.(*ssa.Phi); isPhi && s2 != s {
			walk(ph, depth+1)
			return
		}
		if seen[s2] {
			return
		}
		seen[s2] = true
		switch x := s2.(type) {
		case *ssa.Const:
			if x.Value == nil {
				return
			}
		case *ssa.MakeSlice:
			// zero-valued elements when the length is not 0
			if c, ok := x.Len.(*ssa.Const); ok && c.Value != nil && c.Value.ExactString() == "0" {
				return
			}
		case *ssa.Call:
			if ci := callOf(x); ci.builtin == "append" {
				for _, a := range x.Call.Args {
					walk(a, depth+1)
				}
				return
			}
		case *ssa.Slice:
			if al, ok := x.X.(*ssa.Alloc); ok {
				if _, isArr := al.Type().Underlying().(*types.Pointer).Elem().Underlying().(*types.Array); isArr {
					all := true
					for _, ref := range *al.Referrers() {
						switch y := ref.(type) {
						case *ssa.IndexAddr:
							for _, r2 := range *y.Referrers() {
								if st, ok := r2.(*ssa.Store); ok && st.Addr == ssa.Value(y) {
									out = append(out, elemSource{st.Val, st})
								} else {
									all = false
								}
							}
						case *ssa.Slice, *ssa.DebugRef:
						default:
							all = false
						}
					}
					if all {
						return
					}
				}
			} else {
				walk(x.X, depth+1)
				return
			}
		}
		out = append(out, elemSource{s2, ld})
	}
	walk(ia.X, 0)
	return out, true
}

// boolMapGuardOK: if key comes from ranging over a map[string]bool argument,
// the instruction's block must be guarded by that iteration's value being true.
func (P *Prog) boolMapGuardOK(fn *ssa.Function, b *ssa.BasicBlock, key ssa.Value) bool {
	for _, l := range mapRangeLoops(fn) {
		mt, ok := l.rng.X.Type().Underlying().(*types.Map)
		if !ok {
			continue
		}
		if bt, ok := mt.Elem().Underlying().(*types.Basic); !ok || bt.Kind() != types.Bool {
			continue
		}
		if !l.body[b] || l.key == nil {
			continue
		}
		// is key derived from this loop's key?
		derived := false
		for _, rt := range []ssa.Value{cv(key)} {
			if rt == l.key {
				derived = true
			}
		}
		if !derived {
			// key variable spilled to an alloc
			if u, ok := key.(*ssa.UnOp); ok {
				if al, ok := u.X.(*ssa.Alloc); ok {
					for _, st := range storesTo(al) {
						if st.Val == l.key {
							derived = true
						}
					}
				}
			}
		}
		if !derived {
			continue
		}
		guarded := false
		for _, gd := range guardsOf(b) {
			c := cv(gd.If.Cond)
			if c == l.val && gd.True {
				guarded = true
			}
		}
		return guarded
	}
	return true
}

// checkSliceNilnessNotObserved: a derived schema "behaves on every input like the schema written out by hand". The two
// differ in one thing nobody sees from outside: Merge builds its lists with make(..., 0) - empty, not nil - where a
// schema that was never given a test or a transform holds nil. Execution code therefore never asks whether a list field
// of a schema is nil (`if v.postTransforms != nil { defer recover... }` arms only the merged schema); len() and range
// treat both alike.
func (P *Prog) checkSliceNilnessNotObserved(r *Result, rule string) {
	R := P.roles
	g := P.buildModCG()
	n := 0
	for _, fn := range sortedFuncs(P.execSet(g)) {
		eachInstr(fn, func(_ *ssa.BasicBlock, _ int, in ssa.Instruction) {
			bo, ok := in.(*ssa.BinOp)
			if !ok || (bo.Op != token.EQL && bo.Op != token.NEQ) {
				return
			}
			var other ssa.Value
			switch {
			case isNilConst(bo.Y):
				other = bo.X
			case isNilConst(bo.X):
				other = bo.Y
			default:
				return
			}
			if _, isSl := other.Type().Underlying().(*types.Slice); !isSl {
				return
			}
			_, f := loadOfField(cv(other))
			if f == nil {
				return
			}
			owner := P.fieldOwner(f)
			if owner == nil || !R.isKind(owner) {
				return
			}
			n++
			r.bad(rule, fmt.Sprintf("%s#%s-nil-test@%d", fname(fn), f.Name(), n), P.ipos(in), "execution code asks whether the list "+f.Name()+" of a schema is nil: a schema produced by Merge holds an empty non-nil list where the same schema written by hand holds nil, so the two take different branches")
		})
	}
	if n == 0 {
		r.ok(rule, "execution code", "-", "no list field of a schema kind is compared with nil in execution-reachable code")
	}
}
