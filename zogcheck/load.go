package main

import (
	"fmt"
	"go/token"
	"go/types"
	"os"
	"sort"
	"strings"

	"golang.org/x/tools/go/callgraph"
	"golang.org/x/tools/go/callgraph/cha"
	"golang.org/x/tools/go/callgraph/vta"
	"golang.org/x/tools/go/packages"
	"golang.org/x/tools/go/ssa"
	"golang.org/x/tools/go/ssa/ssautil"
)

const modPath = "github.com/Oudwins/zog"

// Prog is the resolved program every rule analyses: type-checked packages of
// /repo, their SSA form (generic origins, not instantiations), and a VTA call
// graph.
type Prog struct {
	globalUseMemo *globalUseInfo
	fieldReadMemo map[*types.Var]bool
	helperDispMemo map[*ssa.Function]bool
	modCGMemo      *modCG
	Repo           string
	GOARCH         string
	Fset           *token.FileSet
	Pkgs           []*packages.Package
	PkgByID        map[string]*packages.Package
	SSA            *ssa.Program
	SSAPkgs        map[string]*ssa.Package // import path -> ssa package (module only)
	Funcs          []*ssa.Function         // module functions: named, anonymous, init; generic origins only
	ByName         map[string]*ssa.Function
	AllFuncs       map[*ssa.Function]bool // every function incl. stdlib + instantiations (for call graph)
	CG             *callgraph.Graph
	Sizes          types.Sizes

	roles *Roles

	fieldOwnerMemo  map[*types.Var]*types.Named
	retRootsMemo    map[*ssa.Function][]root
	retRootsBusy    map[*ssa.Function]bool
	relevantMemo    map[*ssa.Function]bool
	nodePathsMemo   map[*ssa.Function]*pathResult
	catchMemo       *catchAnalysis
	unitsMemo       map[*ssa.Function][]*nodeUnit
	wrappersMemo    []wrapperInfo
	wipeMemo        map[string]fieldSet
	notConsumerFn   *ssa.Function
	notConsumerDone bool
	entryMemo       map[*ssa.Function]*entryResult
	shapeMemo       map[*ssa.Function]predShape
}

func shortName(s string) string {
	return strings.ReplaceAll(s, "github.com/Oudwins/", "")
}

// fname is the construct name of a function: module-relative, stable under
// line changes.
func fname(fn *ssa.Function) string {
	if fn == nil {
		return "<nil>"
	}
	if a, ok := closureAlias[fn]; ok {
		return a
	}
	if p := fn.Parent(); p != nil {
		if _, ok := closureAlias[p]; ok {
			// nested closure of an aliased initialiser closure
			return fname(p) + "$" + fn.Name()[strings.LastIndex(fn.Name(), "$")+1:]
		}
	}
	return shortName(fn.String())
}

// closureAlias names closures created in package initialisers after the
// variable/field they are stored into ("zog/conf.DefaultCoercers.Int") so that
// construct names do not depend on the closure's ordinal (init$3).
var closureAlias = map[*ssa.Function]string{}

func computeClosureAliases(funcs []*ssa.Function) {
	for _, fn := range funcs {
		if fn.Synthetic != "package initializer" {
			continue
		}
		for _, b := range fn.Blocks {
			for _, in := range b.Instrs {
				st, ok := in.(*ssa.Store)
				if !ok {
					continue
				}
				sv := st.Val
				if ct, ok := sv.(*ssa.ChangeType); ok {
					sv = ct.X
				}
				mc, ok := sv.(*ssa.MakeClosure)
				var cl *ssa.Function
				if ok {
					cl, _ = mc.Fn.(*ssa.Function)
				} else if f, ok := sv.(*ssa.Function); ok && f.Parent() == fn {
					cl = f
				} else if ok && f.Parent() == nil && f.Pkg == fn.Pkg && f.Object() != nil && !f.Object().Exported() && f.Signature.Recv() == nil {
					// a named unexported function of the same package stored into the slot
					// (`Bool: coerceBool`) is that slot's function just as a literal would be
					if _, taken := closureAlias[f]; !taken {
						cl = f
					}
				}
				if cl == nil {
					continue
				}
				// address: Global or FieldAddr chain on a Global
				var parts []string
				a := st.Addr
				for {
					if fa, ok := a.(*ssa.FieldAddr); ok {
						t := fa.X.Type().Underlying().(*types.Pointer).Elem().Underlying().(*types.Struct)
						parts = append([]string{t.Field(fa.Field).Name()}, parts...)
						a = fa.X
						continue
					}
					break
				}
				if g, ok := a.(*ssa.Global); ok {
					name := shortName(g.String())
					if len(parts) > 0 {
						name += "." + strings.Join(parts, ".")
					}
					closureAlias[cl] = name + "(func)"
				}
			}
		}
	}
}

func inModule(pkgPath string) bool {
	return pkgPath == modPath || strings.HasPrefix(pkgPath, modPath+"/")
}

func funcPkgPath(fn *ssa.Function) string {
	for f := fn; f != nil; f = f.Parent() {
		if f.Pkg != nil {
			return f.Pkg.Pkg.Path()
		}
		if o := f.Origin(); o != nil && o.Pkg != nil {
			return o.Pkg.Pkg.Path()
		}
	}
	if fn.Object() != nil && fn.Object().Pkg() != nil {
		return fn.Object().Pkg().Path()
	}
	return ""
}

// Load type-checks ./... of repo and builds SSA + call graph. Any problem is a
// broken check (exit 2), never "held".
func Load(repo, goarch string, needCG bool) (*Prog, error) {
	env := append(os.Environ(),
		"GOFLAGS=-mod=mod", "GOPROXY=off", "GOSUMDB=off", "GOTOOLCHAIN=local", "GOWORK=off",
		"CGO_ENABLED=0")
	if goarch != "" {
		env = append(env, "GOARCH="+goarch)
	}
	fset := token.NewFileSet()
	cfg := &packages.Config{
		Mode:  packages.LoadAllSyntax,
		Dir:   repo,
		Fset:  fset,
		Env:   env,
		Tests: false,
	}
	pkgs, err := packages.Load(cfg, "./...")
	if err != nil {
		return nil, fmt.Errorf("packages.Load: %w", err)
	}
	var errs []string
	nmod := 0
	packages.Visit(pkgs, nil, func(p *packages.Package) {
		if inModule(p.PkgPath) {
			for _, e := range p.Errors {
				errs = append(errs, e.Error())
			}
		}
	})
	for _, p := range pkgs {
		if inModule(p.PkgPath) {
			nmod++
		}
	}
	if len(errs) > 0 {
		return nil, fmt.Errorf("type/load errors in module packages:\n  %s", strings.Join(errs, "\n  "))
	}
	if nmod < 9 {
		return nil, fmt.Errorf("only %d module packages loaded from %s (expected >= 9): refusing to pass vacuously", nmod, repo)
	}
	sort.Slice(pkgs, func(i, j int) bool { return pkgs[i].PkgPath < pkgs[j].PkgPath })

	prog, spkgs := ssautil.AllPackages(pkgs, ssa.BuilderMode(0))
	prog.Build()

	P := &Prog{
		Repo: repo, GOARCH: goarch, Fset: fset, Pkgs: pkgs, SSA: prog,
		PkgByID: map[string]*packages.Package{}, SSAPkgs: map[string]*ssa.Package{},
		ByName:       map[string]*ssa.Function{},
		retRootsMemo: map[*ssa.Function][]root{}, retRootsBusy: map[*ssa.Function]bool{},
	}
	for i, p := range pkgs {
		P.PkgByID[p.PkgPath] = p
		if spkgs[i] != nil && inModule(p.PkgPath) {
			P.SSAPkgs[p.PkgPath] = spkgs[i]
		}
		if P.Sizes == nil && p.TypesSizes != nil {
			P.Sizes = p.TypesSizes
		}
	}
	P.AllFuncs = ssautil.AllFunctions(prog)
	seen := map[*ssa.Function]bool{}
	var add func(fn *ssa.Function)
	add = func(fn *ssa.Function) {
		if fn == nil || seen[fn] {
			return
		}
		seen[fn] = true
		if fn.Blocks == nil {
			return
		}
		P.Funcs = append(P.Funcs, fn)
		for _, a := range fn.AnonFuncs {
			add(a)
		}
	}
	// methods of generic types that are never instantiated in non-test code
	// (Custom[T], PreprocessSchema[F,T], MapDataProvider[T]) are not in
	// AllFunctions: fetch every declared function/method through its object.
	for _, p := range pkgs {
		if !inModule(p.PkgPath) {
			continue
		}
		for _, obj := range p.TypesInfo.Defs {
			if f, ok := obj.(*types.Func); ok {
				if fn := prog.FuncValue(f); fn != nil {
					P.AllFuncs[fn] = true
					for _, a := range fn.AnonFuncs {
						P.AllFuncs[a] = true
					}
				}
			}
		}
	}
	for fn := range P.AllFuncs {
		if fn.Origin() != nil { // instantiation: analyse the generic origin instead
			continue
		}
		if fn.Parent() != nil { // reached through parents
			continue
		}
		if !inModule(funcPkgPath(fn)) {
			continue
		}
		if fn.Synthetic != "" && fn.Synthetic != "package initializer" {
			continue
		}
		add(fn)
	}
	computeClosureAliases(P.Funcs)
	sort.Slice(P.Funcs, func(i, j int) bool { return fname(P.Funcs[i]) < fname(P.Funcs[j]) })
	for _, fn := range P.Funcs {
		P.ByName[fname(fn)] = fn
	}
	if len(P.Funcs) < 200 {
		return nil, fmt.Errorf("only %d module functions with bodies (expected >= 200)", len(P.Funcs))
	}
	if needCG {
		P.CG = vta.CallGraph(P.AllFuncs, cha.CallGraph(prog))
	}
	theProg = P
	deepCloneMemo = map[*ssa.Function]bool{}
	return P, nil
}

func (P *Prog) pos(p token.Pos) string {
	if !p.IsValid() {
		return "-"
	}
	ps := P.Fset.Position(p)
	f := ps.Filename
	if strings.HasPrefix(f, P.Repo+"/") {
		f = f[len(P.Repo)+1:]
	}
	return fmt.Sprintf("%s:%d", f, ps.Line)
}

// instrPos finds a usable position for an instruction (many SSA instructions
// carry NoPos): falls back to operands, then to the function.
func (P *Prog) ipos(in ssa.Instruction) string {
	if in == nil {
		return "-"
	}
	if in.Pos().IsValid() {
		return P.pos(in.Pos())
	}
	if v, ok := in.(ssa.Value); ok && v.Pos().IsValid() {
		return P.pos(v.Pos())
	}
	var ops []*ssa.Value
	for _, op := range in.Operands(ops) {
		if *op != nil && (*op).Pos().IsValid() {
			return P.pos((*op).Pos())
		}
	}
	if in.Parent() != nil {
		return P.pos(in.Parent().Pos()) + "(func)"
	}
	return "-"
}

func (P *Prog) fn(name string) *ssa.Function { return P.ByName[name] }

// lookupType finds a named type in a module package.
func (P *Prog) lookupType(pkg, name string) *types.Named {
	p := P.PkgByID[pkg]
	if p == nil {
		return nil
	}
	o := p.Types.Scope().Lookup(name)
	if o == nil {
		return nil
	}
	n, _ := o.Type().(*types.Named)
	if n == nil {
		if a, ok := o.Type().(*types.Alias); ok {
			n, _ = types.Unalias(a).(*types.Named)
		}
	}
	return n
}

func (P *Prog) lookupObj(pkg, name string) types.Object {
	p := P.PkgByID[pkg]
	if p == nil {
		return nil
	}
	return p.Types.Scope().Lookup(name)
}
