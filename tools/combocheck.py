#!/usr/bin/env python3
"""Detection on refactored code: for every seeded change S and every behaviour-preserving refactor R that
touches a file S touches, apply R then S to a scratch worktree of /repo HEAD (when both still apply and the
tree builds) and run the check of S's own property against it. The check must still report a violation:
a refactor must not hide a breakage. Prints the combinations that are NOT reported.

usage: combocheck.py [-j N] [-r ROUND-GLOB] [seed-name ...]
Scratch worktrees live under /tmp and are removed. Nothing here is a registered check."""
import glob, json, os, re, subprocess, sys, tempfile
from concurrent.futures import ThreadPoolExecutor

ENV = dict(os.environ, GOFLAGS="-mod=mod -trimpath", GOPROXY="off", GOSUMDB="off", GOTOOLCHAIN="local")
ENV.pop("GOWORK", None)


def sh(cmd, cwd=None):
    p = subprocess.run(cmd, shell=True, cwd=cwd, env=ENV, capture_output=True, text=True)
    return p.returncode, p.stdout + p.stderr


def files_of(diff):
    return set(re.findall(r"^\+\+\+ b/(\S+)", open(diff).read(), re.M))


def one(job):
    seed, sdiff, prop, rdiff = job
    d = tempfile.mkdtemp(prefix="cc.", dir="/tmp")
    os.rmdir(d)
    rc, out = sh("git -C /repo worktree add -q %s HEAD" % d)
    if rc != 0:
        return (seed, rdiff, "worktree-failed")
    try:
        if sh("git apply %s" % rdiff, cwd=d)[0] != 0:
            return (seed, rdiff, "refactor-does-not-apply")
        if sh("git apply %s" % sdiff, cwd=d)[0] != 0:
            return (seed, rdiff, "seed-does-not-apply")
        if sh("go build ./...", cwd=d)[0] != 0:
            return (seed, rdiff, "does-not-build")
        v = tempfile.mkdtemp(prefix="ccv.", dir="/tmp")
        sh("cp /verif/known_findings.json %s/" % v)
        rc, out = sh("/verif/bin/zogcheck -prop %s -repo %s -verif %s" % (prop, d, v))
        sh("rm -rf %s" % v)
        if "BROKEN-CHECK" in out or rc == 2:
            return (seed, rdiff, "BROKEN: " + out[-300:])
        if rc == 1 and "VIOLATION property=" in out:
            return (seed, rdiff, "caught")
        return (seed, rdiff, "MISSED")
    finally:
        sh("git -C /repo worktree remove --force %s; git -C /repo worktree prune" % d)


def main():
    args = sys.argv[1:]
    j = 8
    if args and args[0] == "-j":
        j = int(args[1])
        args = args[2:]
    rpat = "R*"
    if args and args[0] == "-r":
        rpat = args[1]
        args = args[2:]
    seeds = sorted(glob.glob("/verif/seeded/*/patch.diff"))
    if args:
        seeds = [s for s in seeds if os.path.basename(os.path.dirname(s)) in args]
    refactors = sorted(glob.glob("/verif/robust/%s/refactor*.diff" % rpat))
    rfiles = {r: files_of(r) for r in refactors}
    jobs = []
    for s in seeds:
        name = os.path.basename(os.path.dirname(s))
        prop = json.load(open(os.path.dirname(s) + "/meta.json"))["property"]
        sf = files_of(s)
        for r in refactors:
            if sf & rfiles[r]:
                jobs.append((name, s, prop, r))
    print("%d combinations" % len(jobs), flush=True)
    tally = {}
    with ThreadPoolExecutor(max_workers=j) as ex:
        for seed, r, res in ex.map(one, jobs):
            k = res.split(":")[0]
            tally[k] = tally.get(k, 0) + 1
            if k in ("MISSED", "BROKEN", "worktree-failed"):
                print("%s + %s: %s" % (seed, r.replace("/verif/robust/", ""), res), flush=True)
    print(tally)


if __name__ == "__main__":
    main()
    subprocess.run("/verif/tools/trimcache.sh", shell=True)
