#!/bin/bash
# usage: mutcheck.sh <props comma-separated> <python-snippet-file-or-sed-args...>
# Creates a scratch worktree of /repo HEAD, applies the mutation (a sed program given as: file 's/..//' pairs),
# builds, runs the existing tests, runs the given property checks against the scratch tree, cleans up.
set -u
. /verif/zogcheck/env.sh
export GOFLAGS="-mod=mod -trimpath"  # scratch worktrees in different directories share build-cache entries
props=$1; shift
D=$(mktemp -d /tmp/mut.XXXXXX)
rmdir $D
git -C /repo worktree add -q $D HEAD || exit 9
cd $D
while [ $# -ge 2 ]; do
  f=$1; prog=$2; shift 2
  before=$(md5sum $f)
  sed -i -E "$prog" $f
  [ "$before" = "$(md5sum $f)" ] && echo "MUTATION DID NOT APPLY: $f $prog"
done
git diff | grep '^[+-]' | grep -v '^+++\|^---' | head -20
if ! go build ./... 2>&1 | head -5 | grep -q .; then echo "build: ok"; else echo "build: FAILED"; go build ./... 2>&1 | head -5; fi
go test -vet=off -count=1 ./... 2>&1 | grep -v "no test files" | grep -v "^ok" | head -8
echo "tests: $(go test -vet=off -count=1 ./... 2>&1 | grep -c '^FAIL') failing package lines"
for p in ${props//,/ }; do
  /verif/bin/zogcheck -prop $p -repo $D -verif /tmp/vtest 2>&1 | grep -v "^VIOLATION" | grep -v "^    " | cut -c1-330 | tail -6
done
cd /
git -C /repo worktree remove --force $D
git -C /repo worktree prune
/verif/tools/trimcache.sh
