#!/usr/bin/env python3
"""Silence on stacked refactors: apply random pairs (or triples) of the behaviour-preserving refactors that
both apply to one scratch worktree of /repo HEAD, build, and run all 20 checks: every check must stay silent.
Prints the combinations that raise an alarm.

usage: paircheck.py [-j N] [-n SAMPLES] [-k 2|3] [-seed S]"""
import glob, os, random, re, subprocess, sys, tempfile
from concurrent.futures import ThreadPoolExecutor

ENV = dict(os.environ, GOFLAGS="-mod=mod -trimpath", GOPROXY="off", GOSUMDB="off", GOTOOLCHAIN="local")
ENV.pop("GOWORK", None)


def sh(cmd, cwd=None):
    p = subprocess.run(cmd, shell=True, cwd=cwd, env=ENV, capture_output=True, text=True)
    return p.returncode, p.stdout + p.stderr


def one(combo):
    d = tempfile.mkdtemp(prefix="pc.", dir="/tmp")
    os.rmdir(d)
    if sh("git -C /repo worktree add -q %s HEAD" % d)[0] != 0:
        return combo, "worktree-failed", ""
    try:
        for r in combo:
            if sh("git apply %s" % r, cwd=d)[0] != 0:
                return combo, "does-not-apply", ""
        if sh("go build ./...", cwd=d)[0] != 0:
            return combo, "does-not-build", ""
        v = tempfile.mkdtemp(prefix="pcv.", dir="/tmp")
        sh("cp /verif/known_findings.json %s/" % v)
        rc, out = sh("/verif/bin/zogcheck -prop all -repo %s -verif %s" % (d, v))
        sh("rm -rf %s" % v)
        bad = [l for l in out.split("\n") if re.match(r"^(VIOLATED|UNDECIDED|BROKEN)", l)]
        if bad:
            return combo, "ALARM", "\n".join("    " + b[:300] for b in bad[:6])
        return combo, "silent", ""
    finally:
        sh("git -C /repo worktree remove --force %s; git -C /repo worktree prune" % d)


def main():
    a = sys.argv[1:]
    opt = {"-j": 8, "-n": 200, "-k": 2, "-seed": 1}
    while a:
        opt[a[0]] = int(a[1])
        a = a[2:]
    refs = sorted(glob.glob("/verif/robust/R*/refactor*.diff"))
    rnd = random.Random(opt["-seed"])
    combos = [tuple(rnd.sample(refs, opt["-k"])) for _ in range(opt["-n"])]
    tally = {}
    with ThreadPoolExecutor(max_workers=opt["-j"]) as ex:
        for combo, res, detail in ex.map(one, combos):
            tally[res] = tally.get(res, 0) + 1
            if res in ("ALARM", "worktree-failed"):
                print(" + ".join(c.replace("/verif/robust/", "") for c in combo) + ": " + res, flush=True)
                if detail:
                    print(detail, flush=True)
    print(tally)


if __name__ == "__main__":
    main()
    subprocess.run("/verif/tools/trimcache.sh", shell=True)
