#!/usr/bin/env python3
"""Mutation sweep: a gap finder for the checks, not a registered check.

Generates single-token / single-line mutants of zog's non-test source with generic operators (relational and
boolean operators, boolean literals, +1/-1, a dropped `!`, a deleted assignment or call statement, `continue`
<-> `break`, `return` after an AddIssue dropped), and for each, in a scratch worktree of /repo HEAD under /tmp:
  build -> (fails: discarded) -> all 20 checks -> existing suite.
Writes a JSON report. The interesting class is "survives the suite and no check reports it": each of those is
either an equivalent mutant, a change outside the 20 properties, or a gap of the checker - triaged by hand.

usage: mutsweep.py [-j N] [-max N] [-files f1,f2,...] [-seed S] -o report.json"""
import json, os, random, re, subprocess, sys, tempfile
from concurrent.futures import ThreadPoolExecutor
import threading, queue

ENV = dict(os.environ, GOFLAGS="-mod=mod -trimpath", GOPROXY="off", GOSUMDB="off", GOTOOLCHAIN="local")
ENV.pop("GOWORK", None)
FILES = ["boolean.go", "custom.go", "numbers.go", "pointers.go", "preprocess.go", "slices.go", "string.go", "struct.go",
         "struct_helpers.go", "time.go", "utils.go", "utilsOptions.go", "zogSchema.go",
         "internals/contexts.go", "internals/DataProviders.go", "internals/Issues.go", "internals/PathBuilder.go",
         "internals/pools.go", "internals/tests.go", "internals/utils.go", "internals/zeroValues.go",
         "conf/Coercers.go", "conf/issueFormatConf.go", "i18n/i18n.go", "zhttp/zhttp.go", "zenv/zenv.go",
         "parsers/zjson/parseJson.go"]


def sh(cmd, cwd=None, timeout=600):
    try:
        p = subprocess.run(cmd, shell=True, cwd=cwd, env=ENV, capture_output=True, text=True, timeout=timeout)
        return p.returncode, p.stdout + p.stderr
    except subprocess.TimeoutExpired:
        return 124, "timeout"


SWAPS = [(" <= ", " < "), (" < ", " <= "), (" >= ", " > "), (" > ", " >= "), (" == ", " != "), (" != ", " == "),
         (" && ", " || "), (" || ", " && "), (" + 1", " - 1"), (" - 1", " + 1"), ("true", "false"), ("false", "true"),
         ("continue", "break"), ("break", "continue")]


OPS = 1


def mutants_of2(path, src):
    """Second family: a constant nudged (0 <-> 1, "" -> "x"), nil tests inverted, two adjacent identifier arguments
    swapped, `:=` for `=` (shadowing) where it still compiles, a `defer` call made immediate, else-branch dropped
    is left to the first family. One mutant per occurrence."""
    out = []
    lines = src.split("\n")
    for i, line in enumerate(lines):
        s = line.strip()
        if not s or s.startswith("//") or s.startswith("import") or s.startswith("package") or s.startswith("*") or s.startswith("/*"):
            continue
        code = line
        def outside_str(k):
            return code[:k].count('"') % 2 == 0 and code[:k].count('`') % 2 == 0
        for m in re.finditer(r"(?<![\w.])0(?![\w.])", code):
            if outside_str(m.start()):
                out.append((path, i, code[:m.start()] + "1" + code[m.end():], "0 -> 1"))
        for m in re.finditer(r"(?<![\w.])1(?![\w.])", code):
            if outside_str(m.start()):
                out.append((path, i, code[:m.start()] + "0" + code[m.end():], "1 -> 0"))
        for m in re.finditer(r'""', code):
            if code[:m.start()].count('"') % 2 == 0:
                out.append((path, i, code[:m.start()] + '"x"' + code[m.end():], '"" -> "x"'))
        for m in re.finditer(r"\(([A-Za-z_][\w.]*), ([A-Za-z_][\w.]*)([,)])", code):
            if outside_str(m.start()) and m.group(1) != m.group(2):
                out.append((path, i, code[:m.start()] + "(" + m.group(2) + ", " + m.group(1) + m.group(3) + code[m.end():], "swap args"))
        m = re.match(r"^(\s*)([A-Za-z_][\w.]*(?:, [A-Za-z_][\w.]*)?) = (.*)$", line)
        if m and "." not in m.group(2) and not s.endswith("{"):
            out.append((path, i, m.group(1) + m.group(2) + " := " + m.group(3), "= -> :="))
        if re.match(r"^\s*if .* == nil \{", line):
            out.append((path, i, line.replace(" == nil {", " != nil {", 1), "== nil -> != nil"))
        if " len(" in code and " > 0" in code:
            out.append((path, i, code.replace(" > 0", " > 1", 1), "> 0 -> > 1"))
        if "[1:]" in code:
            out.append((path, i, code.replace("[1:]", "[0:]", 1), "[1:] -> [0:]"))
        if "[:1]" in code:
            out.append((path, i, code.replace("[:1]", "[:0]", 1), "[:1] -> [:0]"))
    return out


def mutants_of3(path, src):
    """Third family, on whole `if` statements: the condition negated (`if !(c) {`), the whole statement deleted when it
    has no else (the classic missing check), an else branch deleted."""
    out = []
    lines = src.split("\n")
    for i, line in enumerate(lines):
        m = re.match(r"^(\s*)(\} else )?if (.*) \{\s*$", line)
        if not m:
            continue
        indent, els, cond = m.group(1), m.group(2) or "", m.group(3)
        if ";" in cond:
            init, c = cond.rsplit(";", 1)
            neg = init + "; !(" + c.strip() + ")"
        else:
            neg = "!(" + cond + ")"
        out.append((path, i, "%s%sif %s {" % (indent, els, neg), "negate if"))
        if els:
            continue
        # the end of the statement: the first line at the same indentation that starts with `}`
        j = i + 1
        while j < len(lines) and not (lines[j].startswith(indent + "}") and not lines[j].startswith(indent + "\t")):
            j += 1
        if j >= len(lines):
            continue
        if lines[j].strip() == "}":
            out.append((path, (i, j), None, "delete if statement"))
        elif re.match(r"^\s*\} else \{\s*$", lines[j]):
            k = j + 1
            while k < len(lines) and not (lines[k].startswith(indent + "}") and not lines[k].startswith(indent + "\t")):
                k += 1
            if k < len(lines) and lines[k].strip() == "}":
                out.append((path, (j, k), "ELSE", "delete else branch"))
    return out


def mutants_of(path, src):
    if OPS == 3:
        return mutants_of3(path, src)
    if OPS == 2:
        return mutants_of2(path, src)
    out = []
    lines = src.split("\n")
    in_block_comment = False
    for i, line in enumerate(lines):
        s = line.strip()
        if in_block_comment:
            if "*/" in s:
                in_block_comment = False
            continue
        if s.startswith("/*"):
            if "*/" not in s:
                in_block_comment = True
            continue
        if not s or s.startswith("//") or s.startswith("import") or s.startswith("package"):
            continue
        code = line.split("//")[0] if '"' not in line else line
        # operator swaps (every occurrence separately, outside string literals roughly)
        for a, b in SWAPS:
            start = 0
            while True:
                k = code.find(a, start)
                if k < 0:
                    break
                start = k + len(a)
                if code[:k].count('"') % 2 == 1 or code[:k].count('`') % 2 == 1:
                    continue
                if a in ("true", "false", "continue", "break") and (re.match(r"\w", code[k - 1:k] or " ") or re.match(r"\w", code[k + len(a):k + len(a) + 1] or " ")):
                    continue
                out.append((path, i, line[:k] + b + line[k + len(a):], "%s -> %s" % (a.strip(), b.strip())))
        # dropped negation
        for m in re.finditer(r"!(\w|\()", code):
            k = m.start()
            if code[:k].count('"') % 2 == 1 or code[k:k + 2] == "!=":
                continue
            out.append((path, i, line[:k] + line[k + 1:], "drop !"))
        # deleted statement: a one-line assignment to a field / deref, or a one-line call statement
        if re.match(r"^\s*[\w\.\*\(\)\[\]]+(\.\w+)+ = [^=].*$", line) and not s.endswith("{") and not s.endswith(","):
            out.append((path, i, re.match(r"^\s*", line).group(0) + "// (deleted)", "delete assignment"))
        if re.match(r"^\s*[\w\.]+\(.*\)\s*$", line) and not s.startswith("return") and not s.startswith("defer") and not s.startswith("go ") and not s.startswith("panic("):
            out.append((path, i, re.match(r"^\s*", line).group(0) + "// (deleted)", "delete call"))
        if re.match(r"^\s*defer [\w\.]+\(.*\)\s*$", line):
            out.append((path, i, line.replace("defer ", "", 1), "drop defer"))
        # a bare return (the abort after an issue) dropped
        if s == "return" :
            out.append((path, i, re.match(r"^\s*", line).group(0) + "// (deleted)", "delete return"))
    return out


def worker(q, results, lock):
    d = tempfile.mkdtemp(prefix="ms.", dir="/tmp")
    os.rmdir(d)
    rc, out = sh("git -C /repo worktree add -q --detach %s HEAD" % d)
    if rc != 0:
        print("worktree failed", out)
        return
    v = tempfile.mkdtemp(prefix="msv.", dir="/tmp")
    sh("cp /verif/known_findings.json %s/" % v)
    try:
        while True:
            try:
                m = q.get_nowait()
            except queue.Empty:
                break
            path, i, newline, op = m
            full = os.path.join(d, path)
            src = open(full).read()
            lines = src.split("\n")
            if isinstance(i, tuple):
                a, b = i
                old = lines[a]
                if newline == "ELSE":
                    # `} else {` ... `}`  ->  `}`
                    lines[a:b + 1] = [lines[b]]
                else:
                    lines[a:b + 1] = [re.match(r"^\s*", lines[a]).group(0) + "// (deleted)"]
                newline = "(lines %d-%d deleted)" % (a + 1, b + 1)
                i = a
            else:
                old = lines[i]
                lines[i] = newline
            open(full, "w").write("\n".join(lines))
            res = dict(file=path, line=i + 1, op=op, old=old.strip(), new=newline.strip())
            try:
                rc, out = sh("go build ./...", cwd=d)
                if rc != 0:
                    # a compile error names a file and a line; anything else (timeout, the machine out of memory while
                    # other jobs run) is a failure of the harness and must not be counted as "does not build"
                    res["status"] = "no-build" if re.search(r"\.go:\d+:\d+:", out) else "harness-error"
                    res["build_output"] = out[-200:]
                    continue
                rc, out = sh("/verif/bin/zogcheck -prop all -repo %s -verif %s" % (d, v), timeout=300)
                props = sorted(set(re.findall(r"^(?:VIOLATED|UNDECIDED) (C\d\d)/", out, re.M)))
                broken = sorted(set(re.findall(r"^BROKEN-CHECK property=(C\d\d)", out, re.M)))
                rules = sorted(set(re.findall(r"^(?:VIOLATED|UNDECIDED) (C\d\d/[\w-]+)", out, re.M)))
                res["reported_by"] = props
                res["rules"] = rules[:8]
                res["floor_only"] = [b for b in broken if b not in props]
                if "analyser panic" in out:
                    res["analyser_panic"] = True
                rc, out = sh("go test -vet=off -count=1 ./...", cwd=d, timeout=600)
                res["suite"] = "passes" if rc == 0 else "fails"
                res["status"] = "ok"
            finally:
                open(full, "w").write(src)
                with lock:
                    results.append(res)
                    if len(results) % 25 == 0:
                        print(len(results), "done", flush=True)
    finally:
        sh("rm -rf %s; git -C /repo worktree remove --force %s; git -C /repo worktree prune" % (v, d))


def main():
    args = sys.argv[1:]
    j, mx, seed, outp, files = 8, 0, 1, "/tmp/mutsweep.json", FILES
    while args:
        a = args.pop(0)
        if a == "-j":
            j = int(args.pop(0))
        elif a == "-max":
            mx = int(args.pop(0))
        elif a == "-seed":
            seed = int(args.pop(0))
        elif a == "-o":
            outp = args.pop(0)
        elif a == "-files":
            files = args.pop(0).split(",")
        elif a == "-ops":
            global OPS
            OPS = int(args.pop(0))
    allm = []
    for f in files:
        allm += mutants_of(f, open(os.path.join("/repo", f)).read())
    random.Random(seed).shuffle(allm)
    if mx:
        allm = allm[:mx]
    print(len(allm), "mutants", flush=True)
    q = queue.Queue()
    for m in allm:
        q.put(m)
    results, lock = [], threading.Lock()
    ts = [threading.Thread(target=worker, args=(q, results, lock)) for _ in range(j)]
    for t in ts:
        t.start()
    for t in ts:
        t.join()
    json.dump(results, open(outp, "w"), indent=1)
    ok = [r for r in results if r.get("status") == "ok"]
    surv = [r for r in ok if r["suite"] == "passes"]
    unrep = [r for r in surv if not r["reported_by"]]
    print("built %d / %d; suite-surviving %d; of those reported %d, unreported %d; killed by suite but unreported %d" % (
        len(ok), len(results), len(surv), len(surv) - len(unrep), len(unrep), len([r for r in ok if r["suite"] == "fails" and not r["reported_by"]])))


if __name__ == "__main__":
    main()
    subprocess.run("/verif/tools/trimcache.sh", shell=True)
