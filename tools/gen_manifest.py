#!/usr/bin/env python3
"""Regenerates /verif/MANIFEST.json from the table below. Run after adding a property check."""
import json, os, sys

BASE_TESTS = "cd /repo && GOFLAGS=-mod=mod GOPROXY=off GOSUMDB=off go test -vet=off -count=1 ./..."
SETUP = ("cd /verif/zogcheck && GOFLAGS=-mod=mod GOPROXY=off GOSUMDB=off GOTOOLCHAIN=local GOWORK=off "
         "go build -o /verif/bin/zogcheck . ")

TRUST = ("Trusted base: go/packages+go/types type-checking of /repo's working tree, go/ssa (x/tools v0.29.0) SSA construction, "
         "the analyser's role tables (field/type names of zog's contexts, schemas and pools; an unresolved role fails the check), "
         "closed-world interface dispatch over the module's own implementations; user callbacks/coercers/providers are outside the analysed program.")

# id -> (technique, level text, design_ref, extra note)
CHECKS = {}

def add(pid, technique, text, ref, note=""):
    CHECKS[pid] = dict(technique=technique, text=text, ref=ref, note=note)

exec(open(os.path.join(os.path.dirname(__file__), "manifest_table.py")).read())

props = [json.loads(l) for l in open("/verif/properties.jsonl")]
checks = []
na = []
for p in props:
    pid = p["id"]
    if pid in CHECKS:
        c = CHECKS[pid]
        checks.append({
            "property_id": pid,
            "quick_cmd": f"bin/zogcheck -prop {pid} -tier quick",
            "thorough_cmd": f"bin/zogcheck -prop {pid} -tier thorough",
            "evidence_file": f"/verif/evidence/{pid}.json",
            "replay_cmd_template": f"bin/zogcheck -prop {pid} -tier quick  # static finding: the replay file {{path}} names rule, construct, position and derivation",
            "engine": "zogcheck",
            "level_claimed": {"category": "other", "text": c["text"], "design_ref": c["ref"]},
            "level_note": TRUST + (" " + c["note"] if c["note"] else ""),
            "technique": c["technique"],
        })
    else:
        na.append({"property_id": pid, "reason": NA.get(pid, "static check for this property is not built yet in this round; see DESIGN.md section 4 for the planned rule")})

m = {
    "version": 1,
    "setup_cmd": SETUP,
    "hooks": {
        "guard": "verif",
        "enable": "none needed: static analysis reads /repo's source; no instrumentation is compiled into zog",
        "baseline_off_cmd": BASE_TESTS,
        "source_commits": [],
        "add_only": True,
    },
    "engines": [{
        "name": "zogcheck", "path": "/verif/zogcheck",
        "serves_properties": sorted(CHECKS),
        "kind_free_text": "purpose-built static analyser over go/packages + go/ssa of /repo's working tree (dataflow, typestate, effect and table-agreement rules specific to zog)",
    }],
    "checks": checks,
    "notes": "Static analysis only. Every check loads and type-checks /repo's current working tree on each run; nothing executes zog code. Known findings: /verif/known_findings.json.",
    "not_applicable": na,
}
json.dump(m, open("/verif/MANIFEST.json", "w"), indent=1)
print("checks:", [c["property_id"] for c in checks], "na:", [n["property_id"] for n in na])
