#!/usr/bin/env python3
"""Summarise the self-test measurements recorded in evidence/*.json of a verif dir (default /verif)."""
import json, sys, glob, os
d = sys.argv[1] if len(sys.argv) > 1 else "/verif"
tot = rep = 0
for f in sorted(glob.glob(os.path.join(d, "evidence", "C*.json"))):
    e = json.load(open(f)); c = e["coverage"]
    if "selftest_mutants_total" not in c:
        print(os.path.basename(f), "tier", e.get("tier"), "(no self-test data)"); continue
    tot += c["selftest_mutants_total"]; rep += c["selftest_mutants_reported"]
    print("%s mutants %d reported %d n/a %d survivors %s | prefix expected %s reported %s missing %s" % (
        os.path.basename(f)[:3], c["selftest_mutants_total"], c["selftest_mutants_reported"], c.get("selftest_mutants_not_applicable", 0),
        c.get("selftest_mutants_survivors"), c.get("selftest_prefix_expected"), c.get("selftest_prefix_reported"), c.get("selftest_prefix_missing")))
print("total", tot, "reported", rep)
