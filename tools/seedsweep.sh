#!/bin/bash
# checker-only sweep: every kept seed applied to /repo HEAD must still be reported by the checks listed in its meta.json
one() {
  s=$1; n=$(basename $s)
  D=$(mktemp -d /tmp/ss.XXXXXX); rmdir $D
  git -C /repo worktree add -q $D HEAD || { echo "$n: worktree failed"; return; }
  if ! (cd $D && git apply $s/patch.diff 2>/dev/null); then echo "$n: APPLY FAILED"; git -C /repo worktree remove --force $D; return; fi
  got=$(/verif/bin/zogcheck -prop all -repo $D -verif $SSV 2>&1 | grep -E "^(VIOLATED|UNDECIDED) C[0-9][0-9]/" | sed -E 's/^[A-Z]+ (C[0-9][0-9]).*/\1/' | sort -u | tr '\n' ',' | sed 's/,$//; s/,/, /g')
  want=$(python3 -c "import json;print(json.load(open('$s/meta.json'))['caught_by'])")
  [ -z "$got" ] && got=none
  if [ "$got" == "$want" ]; then echo "$n: same"; else echo "$n: CHANGED want=[$want] got=[$got]"; fi
  git -C /repo worktree remove --force $D
}
export -f one
export SSV=/tmp/ss.verif; mkdir -p $SSV; cp /verif/known_findings.json $SSV/
ls -d /verif/seeded/C* | xargs -P 8 -I{} bash -c "one {}"
git -C /repo worktree prune; rm -rf $SSV
