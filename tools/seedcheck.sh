#!/bin/bash
# usage: seedcheck.sh <diff> [demo_test.go|demo_dir] [props...]   — evaluate one seeded change on a scratch worktree of /repo HEAD
set -u
. /verif/zogcheck/env.sh
diff=$1; demo=${2:-}; shift; shift || true
props=${*:-C01 C02 C03 C04 C05 C06 C07 C08 C09 C10 C11 C12 C13 C14 C15 C16 C17 C18 C19 C20}
D=$(mktemp -d /tmp/sc.XXXXXX); rmdir $D
git -C /repo worktree add -q $D HEAD || exit 9
cd $D
if ! git apply $diff 2>/tmp/sc.err; then echo "APPLY: FAILED $(head -2 /tmp/sc.err)"; cd /; git -C /repo worktree remove --force $D; exit 3; fi
echo "APPLY: ok ($(git diff --stat | tail -1))"
if go build ./... 2>&1 | head -3 | grep -q .; then echo "BUILD: FAILED"; else echo "BUILD: ok"; fi
nfail=$(go test -vet=off -count=1 ./... 2>&1 | grep -c '^FAIL\|^--- FAIL')
echo "SUITE: $nfail failing lines"
if [ -n "$demo" ] && [ -e "$demo" ]; then
  if [ -d "$demo" ]; then
    mkdir -p $D/zz_demo && cp -r $demo/* $D/zz_demo/ && (cd $D && go run ./zz_demo 2>&1 | tail -5); echo "DEMO(with change) exit=$?"
  else
    cp $demo $D/zz_demo_test.go
    pkgline=$(head -20 $demo | grep -m1 '^package ')
    out=$(go test -vet=off -count=1 -run . . 2>&1 | grep -E "^(--- FAIL|FAIL|ok|panic)" | head -5)
    echo "DEMO(with change): $(echo $out | cut -c1-300)"
    rm -f $D/zz_demo_test.go
  fi
fi
caught=""
for p in $props; do
  out=$(/verif/bin/zogcheck -prop $p -repo $D -verif /verif 2>&1)
  rc=$?
  if [ $rc -ne 0 ]; then
    caught="$caught $p"
    echo "$out" | grep -E "^(VIOLATED|UNDECIDED|BROKEN)" | cut -c1-260 | head -4
  fi
done
echo "CAUGHT-BY:${caught:- none}"
cd /
git -C /repo worktree remove --force $D
git -C /repo worktree prune
