#!/usr/bin/env python3
"""Confirm a seeded change and keep it under /verif/seeded/<name>/.

usage: seedkeep.py <Cxx> <N> [--summary "..."] [--needs "..."]

Confirms, on scratch worktrees of /repo HEAD under /tmp (removed afterwards):
  * the patch applies, the tree builds, the existing suite passes with it;
  * the demonstration fails with the patch and passes without it;
then runs all 20 checks against the patched tree and records which report it.
Writes patch.diff, the demo, notes.md (the author's description) and meta.json.
"""
import json, os, re, shutil, subprocess, sys, tempfile

ENV = dict(os.environ, GOFLAGS="-mod=mod -trimpath", GOPROXY="off", GOSUMDB="off", GOTOOLCHAIN="local")
ENV.pop("GOWORK", None)
PROPS = ["C%02d" % i for i in range(1, 21)]


def sh(cmd, cwd=None):
    p = subprocess.run(cmd, shell=True, cwd=cwd, env=ENV, capture_output=True, text=True)
    return p.returncode, p.stdout + p.stderr


def worktree():
    d = tempfile.mkdtemp(prefix="sk.", dir="/tmp")
    os.rmdir(d)
    rc, out = sh("git -C /repo worktree add -q %s HEAD" % d)
    assert rc == 0, out
    return d


def drop(d):
    sh("git -C /repo worktree remove --force %s; git -C /repo worktree prune" % d)


def run_demo(tree, demo, side="with", tag=""):
    """side: "with" (patched tree) or "without" (clean tree). Companion files next to the demo named
    <demo stem>*_with_test.go / *_without_test.go go only into that side; other <demo stem>*_test.go files into both.
    tag: a build tag set on the patched side (a demo of a new API may bind it through tagged shim files)."""
    if os.path.isdir(demo):
        shutil.copytree(demo, os.path.join(tree, "zz_demo"))
        rc, out = sh("go run ./zz_demo", cwd=tree)
        shutil.rmtree(os.path.join(tree, "zz_demo"))
        return rc, out
    src = open(demo).read()
    pkg = re.search(r"^package (\w+)", src, re.M).group(1)
    sub = {"zog": ".", "zog_test": ".", "zhttp": "zhttp", "zhttp_test": "zhttp", "internals": "internals", "conf": "conf", "zenv": "zenv", "zjson": "parsers/zjson", "i18n": "i18n"}.get(pkg, ".")
    dst = os.path.join(tree, sub, "zz_demo_test.go")
    shutil.copy(demo, dst)
    extra = []
    stem = os.path.basename(demo)[: -len("_test.go")]
    for f in sorted(os.listdir(os.path.dirname(demo))):
        if f == os.path.basename(demo) or not (f.startswith(stem) and f.endswith("_test.go")):
            continue
        if "newapi" in f or "_api_" in f or "_base_" in f:
            continue  # shows the advertised behaviour of a new API: not part of the demonstration
        other = "without" if side == "with" else "with"
        if f.endswith("_%s_test.go" % other) and "//go:build" not in open(os.path.join(os.path.dirname(demo), f)).read():
            continue
        e = os.path.join(tree, sub, "zz_" + f)
        shutil.copy(os.path.join(os.path.dirname(demo), f), e)
        extra.append(e)
    names = re.findall(r"^func (Test\w+)\(", src, re.M)
    tags = "-tags %s" % tag if (tag and side == "with") else ""
    rc, out = sh("go test -vet=off -count=1 %s -run '^(%s)$' ./%s" % (tags, "|".join(names), sub), cwd=tree)
    os.remove(dst)
    for e in extra:
        os.remove(e)
    return rc, out


def extract_needs(txt):
    """What the change needs in order to manifest, taken from the author's notes: the paragraph / bullet
    that talks about it (heading "what it needs", "Needs:", "Manifests ...")."""
    paras = [re.sub(r"\s+", " ", p).strip() for p in re.split(r"\n\s*\n|\n(?=[#*-] )", txt)]
    pats = [r"(?i)what (it|this) needs", r"(?i)\bneeds?\b.*\b(manifest|show|trigger|expose)", r"(?i)^[#*\- ]*\**needs\b", r"(?i)\bmanifests?\b", r"(?i)to (trigger|expose|observe) (it|the)", r"(?i)\brequires?\b"]
    for pat in pats:
        for i, p in enumerate(paras):
            if re.search(pat, p):
                body = p
                # a heading alone: take the following paragraph
                if len(re.sub(r"[#*`]", "", p)) < 60 and i + 1 < len(paras):
                    body = p + " " + paras[i + 1]
                return re.sub(r"^[#*\- ]+", "", body)[:500]
    return "see notes.md"


def main():
    pid, n = sys.argv[1], sys.argv[2]
    args = sys.argv[3:]
    summary = needs = ""
    if "--summary" in args:
        summary = args[args.index("--summary") + 1]
    if "--needs" in args:
        needs = args[args.index("--needs") + 1]
    src = "/tmp/seedout/%s" % pid
    diff = "%s/change%s.diff" % (src, n)
    demo = None
    for cand in ["change%s_demo_test.go" % n, "change%s_demo" % n]:
        if os.path.exists(os.path.join(src, cand)):
            demo = os.path.join(src, cand)
    notes = "%s/change%s.md" % (src, n)
    name = "%s-%s" % (pid, n)
    res = {"property": pid, "name": name}

    baseline = ""
    if "--baseline" in args:
        baseline = args[args.index("--baseline") + 1]
    tag = "change%s" % n
    clean = worktree()
    if baseline:
        # the demonstration needs an API that does not exist on the pinned tree: "without the change" is the
        # author's correct implementation of the same feature
        rcb, outb = sh("git apply %s" % baseline, cwd=clean)
        assert rcb == 0, outb
    demo0 = demo
    if "--without-demo" in args:
        # the demonstration uses a new API: on the pinned tree the author's same scenario without that API is run
        demo0 = os.path.join(src, args[args.index("--without-demo") + 1])
    rc0, out0 = run_demo(clean, demo0, "without" if not baseline else "with", tag) if demo else (None, "")
    drop(clean)
    res["demo_without_change"] = "passes" if rc0 == 0 else "FAILS"

    t = worktree()
    rc, out = sh("git apply %s" % diff, cwd=t)
    res["applies"] = rc == 0
    rc, out = sh("go build ./...", cwd=t)
    res["builds"] = rc == 0
    rc, out = sh("go test -vet=off -count=1 ./...", cwd=t)
    res["existing_suite_passes"] = rc == 0
    rc1, out1 = run_demo(t, demo, "with", tag) if demo else (None, "")
    res["demo_with_change"] = "fails" if rc1 not in (0, None) else "PASSES"
    caught = []
    reports = []
    # one process for all 20 checks (one load of the tree); evidence goes to a scratch verif dir
    sv = tempfile.mkdtemp(prefix="skv.", dir="/tmp")
    shutil.copy("/verif/known_findings.json", sv)
    rc, out = sh("/verif/bin/zogcheck -prop all -repo %s -verif %s" % (t, sv))
    shutil.rmtree(sv, ignore_errors=True)
    if len(re.findall(r"^C\d\d quick:", out, re.M)) != 20:
        print("seedkeep: the checks did not all run (rc=%s): %s" % (rc, out[-300:]))
        drop(t)
        return 2
    for l in out.splitlines():
        m = re.match(r"^(VIOLATED|UNDECIDED) (C\d\d)/", l) or re.match(r"^(BROKEN-CHECK) property=(C\d\d)", l)
        if m and "analyser panic" in l:
            # a crash of the analyser is a defect of the checker, not a detection
            print("seedkeep: WARNING analyser panic on this tree:", l[:200])
            reports.append("ANALYSER-PANIC " + l[:250].replace(t + "/", ""))
            continue
        if m and m.group(1) == "BROKEN-CHECK":
            # a vacuity floor firing is not a report of the change
            reports.append("(floor only) " + l[:250].replace(t + "/", ""))
            continue
        if m:
            if m.group(2) not in caught:
                caught.append(m.group(2))
            reports.append(l[:300].replace(t + "/", ""))
    caught.sort()
    drop(t)
    res["caught_by_checks"] = caught
    res["reports"] = reports[:12]
    ok = res["applies"] and res["builds"] and res["existing_suite_passes"] and res["demo_with_change"] == "fails" and res["demo_without_change"] == "passes"
    res["confirmed"] = bool(ok)
    print(json.dumps({k: res[k] for k in ["name", "applies", "builds", "existing_suite_passes", "demo_with_change", "demo_without_change", "confirmed", "caught_by_checks"]}))
    if not ok:
        print("NOT KEPT: confirmation failed")
        return 1
    dst = "/verif/seeded/%s" % name
    os.makedirs(dst, exist_ok=True)
    shutil.copy(diff, os.path.join(dst, "patch.diff"))
    if demo:
        if os.path.isdir(demo):
            shutil.copytree(demo, os.path.join(dst, "demo"), dirs_exist_ok=True)
        else:
            # keep the demo under a name the go tool ignores, so that /verif never compiles it by accident
            shutil.copy(demo, os.path.join(dst, "demo_test.go.txt"))
            stem = os.path.basename(demo)[: -len("_test.go")]
            for f in sorted(os.listdir(os.path.dirname(demo))):
                if f != os.path.basename(demo) and f.startswith(stem) and f.endswith("_test.go"):
                    shutil.copy(os.path.join(os.path.dirname(demo), f), os.path.join(dst, f + ".txt"))
    if baseline:
        if os.path.abspath(baseline) != os.path.abspath(os.path.join(dst, "baseline_correct_feature.diff")):
            shutil.copy(baseline, os.path.join(dst, "baseline_correct_feature.diff"))
    if os.path.exists(notes):
        shutil.copy(notes, os.path.join(dst, "notes.md"))
        txt = open(notes).read()
    else:
        txt = ""
    if not summary:
        body = [l.strip() for l in txt.splitlines() if l.strip() and not l.startswith("#")]
        summary = " ".join(body)[:400]
    if not needs:
        needs = extract_needs(txt)
    meta = {
        "property": pid,
        "summary": summary,
        "needs": needs or "see notes.md",
        "author": "independent sub-agent given only the property text and a scratch worktree",
        "what_i_ran": [
            "git worktree add /tmp/sk.X HEAD (of /repo); git apply patch.diff; go build ./...; go test -vet=off -count=1 ./...  -> build ok, existing suite passes",
            "demonstration copied into the patched tree -> fails; into a clean worktree -> passes" + (" (clean worktree + baseline_correct_feature.diff: the demonstration uses an API the pinned tree does not have)" if baseline else ""),
            "bin/zogcheck -prop C01..C20 -repo <patched tree> -> see caught_by",
        ],
        "caught_by": ", ".join(caught) if caught else "none",
        "reports": reports[:12],
        "base_commit": subprocess.check_output(["git", "-C", "/repo", "rev-parse", "--short", "HEAD"], text=True).strip(),
    }
    json.dump(meta, open(os.path.join(dst, "meta.json"), "w"), indent=1, ensure_ascii=False)
    return 0


if __name__ == "__main__":
    rc = main()
    subprocess.run("/verif/tools/trimcache.sh 40", shell=True)  # (many seedkeep runs share one cache: trim late)
    sys.exit(rc)
