#!/usr/bin/env python3
"""Assembles DESIGN.md: head (sections 0-1, kept from the original design) + tools/design_tail.md with the
seeded-changes table generated from /verif/seeded/*/meta.json."""
import json, glob, os
head = open('/verif/tools/design_head.md').read()
tail = open('/verif/tools/design_tail.md').read()
rows = []
for m in sorted(glob.glob('/verif/seeded/*/meta.json')):
    d = json.load(open(m))
    rows.append("| %s | %s | %s | %s | %s |" % (os.path.basename(os.path.dirname(m)), d.get('property',''), d.get('summary','').replace('|','/'), d.get('needs','').replace('|','/'), d.get('caught_by','').replace('|','/')))
table = "| seeded change | property | change | needs, to manifest | caught by |\n|---|---|---|---|---|\n" + "\n".join(rows) if rows else "(no seeded changes recorded yet)"
# Appendix A: every rule the checks register, read from the evidence of the last run (instances, floor) and from the
# checker's source (which rules are adoptions of another property's rule, with or without a filter)
import re
adopt = {}
for f in sorted(glob.glob('/verif/zogcheck/*.go')):
    src = open(f).read()
    for m in re.finditer(r'shareRule\(P, r, check(C\d\d), "([^"]+)", (nil|func)[^\n]*?"(C\d\d/[^"]+)", \d+\)', src):
        adopt.setdefault(m.group(4), []).append(m.group(2) + (" (filtered)" if m.group(3) == "func" else ""))
    for m in re.finditer(r'shareRule\(P, r, check(C\d\d), "([^"]+)", func\(o Obligation\) bool \{\n(?:[^\n]*\n){1,3}?\t\}, "(C\d\d/[^"]+)", \d+\)', src):
        adopt.setdefault(m.group(3), []).append(m.group(2) + " (filtered)")
arows = []
for f in sorted(glob.glob('/verif/evidence/C*.json')):
    e = json.load(open(f))
    for x in sorted(e['coverage'].get('rule_instances', []), key=lambda x: x['rule']):
        src = ", ".join(sorted(set(adopt.get(x['rule'], [])))) or "own"
        arows.append("| `%s` | %s | %s | %s |" % (x['rule'], x['instances'], x.get('floor', ''), src))
appendix = ("\n\n## Appendix A. Every rule, as registered by the last run\n\n"
            "Generated from `evidence/*.json` (instances on the pinned tree, vacuity floor; floor 0 = none) and from the checker's "
            "source (`shareRule`: the rule is another property's rule adopted under this name, the necessary condition being common "
            "to both statements; \"filtered\" = only the obligations about the constructs relevant here). Section 4 describes the "
            "rules in prose; this table is the complete list.\n\n"
            "| rule | instances | floor | own / adopted from |\n|---|---|---|---|\n" + "\n".join(arows) + "\n")
open('/verif/DESIGN.md','w').write(head + tail.replace('@SEEDED_TABLE@', table) + appendix)
print("DESIGN.md written,", len(rows), "seeded rows")
