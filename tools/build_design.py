#!/usr/bin/env python3
"""Assembles DESIGN.md: head (sections 0-1, kept from the original design) + tools/design_tail.md with the
seeded-changes table generated from /verif/seeded/*/meta.json."""
import json, glob, os
head = open('/verif/tools/design_head.md').read()
tail = open('/verif/tools/design_tail.md').read()
rows = []
for m in sorted(glob.glob('/verif/seeded/*/meta.json')):
    d = json.load(open(m))
    rows.append("| %s | %s | %s | %s | %s |" % (os.path.basename(os.path.dirname(m)), d.get('property',''), d.get('summary','').replace('|','/'), d.get('needs','').replace('|','/'), d.get('caught_by','').replace('|','/')))
table = "| seeded change | property | change | needs, to manifest | caught by |\n|---|---|---|---|---|\n" + "\n".join(rows) if rows else "(no seeded changes recorded yet)"
open('/verif/DESIGN.md','w').write(head + tail.replace('@SEEDED_TABLE@', table))
print("DESIGN.md written,", len(rows), "seeded rows")
