NA = {}
add("C07", "pool typestate: must-store dataflow per sync.Pool acquisition site, release/ownership rules, push/pop balance, write-effect classification over the execution-reachable call graph",
    "Decides a structural necessary condition of isolation for all histories: every field of every recycled object is re-initialised on every path from Pool.Get (or proven write-before-read), objects are released once and never used/returned after release, the path stack is balanced, and no execution-reachable function writes a package-level variable or closure capture. Not a run-time equality of results; level 'other'.",
    "DESIGN.md section 4, C07")
