NA = {}
add("C07", "pool typestate: must-store dataflow per sync.Pool acquisition site, release/ownership rules, push/pop balance, write-effect classification over the execution-reachable call graph",
    "Decides a structural necessary condition of isolation for all histories: every field of every recycled object is re-initialised on every path from Pool.Get (or proven write-before-read), objects are released once and never used/returned after release, the path stack is balanced, and no execution-reachable function writes a package-level variable or closure capture. Not a run-time equality of results; level 'other'.",
    "DESIGN.md section 4, C07")
add("C01", "CFG must-pass-through over node events, catch-flag typestate dataflow with callee summaries (least fixpoint over interface dispatch), wrapper polarity by control dependence",
    "Decides four structural necessary conditions of 'success means valid' for all schema trees/inputs at once (the node-handling code is finite): no silent exit from any process/validate method, issues reach the container unless CanCatch, bool-test wrappers emit exactly on predicate failure, and the child context is catch-clean at every dispatch. Not a run-time check of constraint satisfaction; level 'other'.",
    "DESIGN.md section 4, C01")
add("C05", "catch-flag typestate per dispatch site and flag; who-may-write rule for the flags; control-dependence rule for catch stores in the primitive pipelines",
    "Decides confinement of Catch (every flag definitely false at every dispatch into a child, both modes), that only the pipelines/AddIssue set flags, that every swallowed failure stores the catch value and only then, and that node code never bypasses the swallowing sink. Relational equality with the catch-free schema is not decided; level 'other'.",
    "DESIGN.md section 4, C05")
add("C08", "write-effect classification by address-root walk (fields, loads, captures, call-site actuals) over the execution-reachable module call graph; no-go and single-owner rules",
    "Decides race freedom of library-owned state by construction: execution code writes only call-local, pooled per-call or destination memory, starts no goroutines, and never parks pooled objects in shared memory. Does not decide equality of concurrent and sequential results; level 'other'.",
    "DESIGN.md section 4, C08")
add("C09", "loop-carried dependence analysis of every map-range loop (header phis, catch-flag typestate, per-iteration field definition, keyed writes, early exits)",
    "Decides that no map-range loop carries state between iterations except through order-insensitive sinks, which is the only way map order can reach results inside the library. Go's own map semantics and $first are not decided; level 'other'.",
    "DESIGN.md section 4, C09")
add("C19", "write-effect classification (schema/input roots forbidden) plus value-flow from schema fields to destination stores and a guard rule for Validate-mode destination writes",
    "Decides that no execution-reachable write targets schema- or input-owned memory, that no schema-owned reference reaches the destination uncopied, and that Validate writes the value only on default/catch paths. Deep-snapshot equality at run time is not decided; level 'other'.",
    "DESIGN.md section 4, C19")
add("C11", "exhaustive join of a writer table (Test/issue literals, codes, param keys, schema types; from SSA) with a reader table (LangMap literals; from the syntax tree); must-store and control-dependence rules for issue construction and formatter precedence",
    "Decides the catalogue clause completely (every built-in test x schema type x shipped language has a non-empty template whose placeholders the producing test fills), that single-parameter tests use their code as key, that issue constructors fill every field from the node's context, and the formatter precedence chain structurally. Run-time formatter combinations and user language maps are not decided; level 'other'.",
    "DESIGN.md section 4, C11")
add("C18", "enumeration of numeric Convert instructions in all code reachable from the numeric coercers; lossiness from types.Sizes; dominating range-guard proof in exact rational arithmetic (NaN-aware) or integer round-trip; strconv error discipline; thorough repeats under GOARCH=386",
    "Decides that every lossy numeric conversion on a coercion path is range-guarded so that an out-of-range input becomes a coerce error, never another number. strconv's own parsing and custom coercers are trusted; level 'other'.",
    "DESIGN.md section 4, C18")
add("C03", "def-use / value-flow rules on option constructors and schema constructors, guard-dominance on the coercion store, induction-variable agreement in the slice loops, reflect write-site rule for the struct pipeline",
    "Decides only the structural part of C03: options take effect and are applied, the default coercer is the overridable global of the right type, the pipeline stores exactly the coercer's result, slice index/path/destination agree, the destination struct is written field-by-field, pointers allocate only when nil. The value semantics of the coercers (\"1\"->1, \"on\"->true, layouts) are NOT decided by static analysis; level 'other'.",
    "DESIGN.md section 4, C03")
add("C12", "address-root classification of callback arguments at every callback call site; shape rules (entry-block defer, HasErrored gate, ascending loop, one wrapping issue) on the post-transform closures; never-reaches rule for Preprocess",
    "Decides that every user callback is invoked with the node's own destination value and context in both modes, the primitive/complex TFunc convention, the structural PostTransform protocol and the Preprocess skip. Run-time call counts and cross-node order are not decided; level 'other'.",
    "DESIGN.md section 4, C12")
add("C16", "flow-sensitive field provenance on locally created schema objects (fresh / capacity-clipped / shared-with-operand), map-write target resolution, CFG-order rules for Merge, key-provenance rules for Pick/Omit/Extend",
    "Decides that derived struct schemas never share an appendable slice backing array or a field map with an operand, never write an operand, combine operands in documented order and select exactly the named keys. Behavioural equivalence with a hand-written schema on all inputs is not decided; level 'other'.",
    "DESIGN.md section 4, C16")
add("C20", "canonical-formula extraction from each predicate closure's SSA (path-condition DNF, existential loop summaries, exact rune-interval evaluation of comparison DAGs) compared with a table frozen from the documentation and keyed by the issue code the same constructor reports",
    "Decides, exhaustively over the built-in tests, that each predicate closure computes exactly its documented predicate (operators, operand order, inclusive bounds, Equal vs ==, DeepEqual membership, ASCII classes). The grammars of the e-mail/UUID regular expressions and url.Parse are not decided; level 'other'.",
    "DESIGN.md section 4, C20")
add("C17", "who-may-write + must-pass-through typestate of the negation flag, receiver field-effect sets of every builder method (through callees), locality of the Test value each TestOption is invoked on, sibling agreement of setCoercer",
    "Decides that Not() is consumed by exactly the next interface test with the complementary wrapper and not_-prefixed code, that every builder method writes exactly the fields of its role unconditionally, that options only touch a call-local Test which is the one added, and the setCoercer convention. Random builder chains on inputs are not decided; level 'other'.",
    "DESIGN.md section 4, C17")
add("C02", "exit-edge analysis of every test loop (only ctx.Exit-guarded early exits), decision-path enumeration (one required/coerce issue then return), dominance rule for ctx.Test, who-may-write + return-value provenance for the issue collections",
    "Decides that a non-catching node runs every test, that required/coerce failures emit exactly one issue and abort only their own node, that an issue is always built from the failing test itself, and that the returned collection is nil iff nothing was added. Multiset equality against an executable spec is not decided; level 'other'.",
    "DESIGN.md section 4, C02")
add("C04", "exhaustive decision-path enumeration of the six absence-handling sites with role-classified branch atoms; binding of the parse/validate absence predicates and their canonical formulas; presence-guard rule on provider map lookups",
    "Decides the decision shape default > required > optional at every site and in both modes, which predicate each mode uses and on what, the predicates' formulas, and that a missing map key is nil at the provider boundary. strings.TrimSpace's notion of blank is library semantics; level 'other'.",
    "DESIGN.md section 4, C04")
add("C10", "shape rules on ErrsMap.Add (guarded $first, exactly-one keyed append, $root rewrite), who-may-call for the path-keyed sink, value-flow of the pushed path segment, canonical return-path table of GetKeyFromField, constant-tag table of the front ends, last-write rule for IssuePath, key/index agreement of the sanitizers",
    "Decides that every issue is filed exactly once under its own path (or $root), $first once, that path segments are the keys/indices actually used for lookup, the tag priority, each front end's tag, IssuePath override and sanitizer agreement. The nested-tag clause is a recorded known finding (F17). PathBuilder's string rendering is value-level; level 'other'.",
    "DESIGN.md section 4, C10")
add("C14", "sibling cross-check of all GetByField implementations, path-sensitive typestate of a consumed DpFactory (every path from the factory call to a child dispatch overwrites the child's Data), decision-path comparison of the two factory handlers, reachability of GetNestedProvider",
    "Decides only the structural part of front-end equivalence: identical field resolution in every provider, a decoding factory is consumed once, both factory handlers follow the same protocol. Nested-provider derivation is a recorded known finding (F17). Equality of results across renderings of one record is not decided; level 'other'.",
    "DESIGN.md section 4, C14")
add("C15", "decision-table extraction of zhttp.Request from SSA paths compared with the documented table; return-path classification of the decoding closures; decision-path rule for factory errors; presence-guard rule on url.Values lookups; nil-flow analysis of DataProvider values into invoke sites",
    "Decides the source-selection table, that undecodable bodies yield exactly one documented issue with no schema run and no destination write, list/scalar/absent presentation of parameters, and that {} cannot produce a nil provider dereference. Media-type normalisation beyond cutting parameters is not claimed; level 'other'.",
    "DESIGN.md section 4, C15")
