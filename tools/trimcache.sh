#!/bin/sh
# The scratch-worktree tools (robustcheck, seedkeep, combocheck, paircheck, mutsweep) compile thousands of variants of
# zog. They build with -trimpath so that variants in different scratch directories share cache entries, and call this
# at the end: when the Go build cache has grown beyond LIMIT_GB it is emptied (the registered checks never compile zog;
# zogcheck itself rebuilds from a cold cache in ~8 s, offline).
LIMIT_GB=${1:-15}
c=$(GOFLAGS=-mod=mod go env GOCACHE 2>/dev/null)
[ -d "$c" ] || exit 0
gb=$(du -s -BG "$c" 2>/dev/null | cut -f1 | tr -d G)
if [ "${gb:-0}" -gt "$LIMIT_GB" ]; then
  GOFLAGS=-mod=mod go clean -cache
  echo "trimcache: build cache was ${gb}G, emptied"
fi
