#!/bin/bash
# usage: robustcheck.sh [diff...]  — run all 20 checks against each behaviour-preserving refactor (default: all of /verif/robust)
# on a scratch worktree of /repo HEAD; every one must stay silent.
set -u
. /verif/zogcheck/env.sh
export GOFLAGS="-mod=mod -trimpath"  # scratch worktrees in different directories share build-cache entries
diffs=${*:-$(ls /verif/robust/R*/refactor*.diff)}
one() {
  diff=$1
  D=$(mktemp -d /tmp/rc.XXXXXX); rmdir $D
  git -C /repo worktree add -q $D HEAD || { echo "$diff: worktree failed"; return; }
  if ! (cd $D && git apply $diff 2>/dev/null); then echo "$diff: APPLY FAILED"; git -C /repo worktree remove --force $D; return; fi
  if [ -n "${RC_FULL:-}" ]; then
    if ! (cd $D && go build ./... >/dev/null 2>&1); then echo "$diff: BUILD FAILED"; fi
    nf=$(cd $D && go test -vet=off -count=1 ./... 2>&1 | grep -c '^FAIL\|^--- FAIL'); [ "$nf" != "0" ] && echo "$diff: SUITE FAILS ($nf lines)"
  fi
  out=$(/verif/bin/zogcheck -prop all -repo $D -verif $RCV 2>&1 | grep -E "^(VIOLATED|UNDECIDED|BROKEN|panic|fatal)" | cut -c1-${RC_COLS:-300} | sed "s#$D/##g" | head -${RC_LINES:-8})
  if [ -z "$out" ]; then echo "$(echo $diff | sed 's#/verif/robust/##'): silent"; else echo "$(echo $diff | sed 's#/verif/robust/##'): ALARM"; echo "$out" | sed 's/^/    /'; fi
  git -C /repo worktree remove --force $D
}
export -f one
export RCV=/tmp/rc.verif.$$; mkdir -p $RCV; cp /verif/known_findings.json $RCV/ 2>/dev/null
export RC_LINES=${RC_LINES:-8}
for d in $diffs; do echo $d; done | xargs -P 6 -I{} bash -c "one {}" 
git -C /repo worktree prune
rm -rf $RCV
/verif/tools/trimcache.sh
